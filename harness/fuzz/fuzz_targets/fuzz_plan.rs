#![no_main]
//! libFuzzer target: the input bytes are used as the random stream (proptest pass-through
//! RNG) of the generator of the property named in NFV_FUZZ_PROPS, so that coverage feedback
//! shapes conformant streams; the property's own oracle runs on the generated case.
use libfuzzer_sys::fuzz_target;

// counting allocator: needed by the C15 oracle, harmless for the others
#[global_allocator]
static A: nfv::alloc::Counting = nfv::alloc::Counting;

fuzz_target!(|data: &[u8]| {
    nfv::fuzzglue::run_plan(data);
});
