#![no_main]
//! libFuzzer target: bytes -> (allowed set, history of buffers), buffers taken verbatim so
//! that coverage feedback reaches the parsers. Every iteration runs on fresh parsers (no
//! state leaks between iterations) and applies the oracles of C01 (no panic, on a 2 MiB
//! thread), C02 (decomposition), C09/C10 (re-export with attribution), C12 (allowed-set
//! differential) and C16 (JSON). A violation writes a replay file, prints the VIOLATION
//! line and aborts.
use libfuzzer_sys::fuzz_target;

// counting allocator: needed by the C15 oracle, harmless for the others
#[global_allocator]
static A: nfv::alloc::Counting = nfv::alloc::Counting;
use nfv::fuzzglue;

fuzz_target!(|data: &[u8]| {
    fuzzglue::run(data);
});
