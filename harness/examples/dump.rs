//! dump FILE: print reference decode and library decode of a case, side by side
use nfv::engine::Case;
use nfv::refdec::*;
use nfv::wire::*;
fn main() {
    let f = std::env::args().nth(1).unwrap();
    let v: serde_json::Value = serde_json::from_str(&std::fs::read_to_string(f).unwrap()).unwrap();
    let case = Case::from_json(&v).unwrap();
    let mut p = nfv::obs::new_parser(&case.allowed_of(0));
    let mut cache = Cache::default();
    for (ci, c) in case.calls.iter().enumerate() {
        let buf = c.buf();
        println!("== call {} ({} bytes) {}", ci, buf.len(), hex(&buf[..buf.len().min(400)]));
        let res = p.parse_bytes(&buf);
        let mut off = 0;
        while off + 2 <= buf.len() {
            let v = be16(&buf, off);
            let r = match v {
                9 => dec_v9(&buf[off..], &mut cache),
                10 => dec_ipfix(&buf[off..], &mut cache),
                5 | 7 => { let r = dec_fixed(&buf[off..]).unwrap(); println!("  ref: fixed v{} len {}", v, r.len); off += r.len; continue; }
                _ => break,
            };
            match r {
                Ok(r) => {
                    println!("  ref: {:?} header {:?} len {}", r.proto, r.header, r.len);
                    for s in &r.sets {
                        match &s.body {
                            RefBody::Templates { tpls, padding } => println!("    set id {} len {} off {}: templates {:?} pad {}", s.id, s.length, s.off, tpls, hex(padding)),
                            RefBody::Data { def, records, padding } => println!("    set id {} len {} off {}: data {} records under {:?} pad {} | {:?}", s.id, s.length, s.off, records.len(), def, hex(padding), records.iter().map(|r| r.iter().map(|f| hex(f)).collect::<Vec<_>>()).collect::<Vec<_>>()),
                            RefBody::UnknownTemplate => println!("    set id {} len {}: UNKNOWN template", s.id, s.length),
                        }
                    }
                    off += r.len;
                }
                Err(e) => { println!("  ref: NONCONF {}", e.0); break; }
            }
        }
        for el in &res {
            let s = format!("{:?}", el);
            println!("  lib: {}", s.chars().take(3000).collect::<String>());
        }
    }
}
