use netflow_parser::protocol::ProtocolTypes;
use nom_derive::Parse;
fn main() {
    for n in 0..=255u8 {
        let bytes = [n];
        let parsed = ProtocolTypes::parse(&bytes).map(|(_, p)| format!("{:?}", p)).unwrap_or("ERR".into());
        let from = format!("{:?}", ProtocolTypes::from(n));
        let names = nfv::refdec::iana_names(n);
        let np = nfv::refdec::norm_name(&parsed);
        let nf = nfv::refdec::norm_name(&from);
        if !names.contains(&np) || !names.contains(&nf) {
            println!("{} parse={} from={} iana={:?}", n, parsed, from, names);
        }
    }
}
