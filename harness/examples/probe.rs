//! scratch probe: CPU time of C15 families at several sizes
use nfv::props::c15::family;
fn main() {
    let args: Vec<String> = std::env::args().collect();
    let name = &args[1];
    for n in [2000usize, 4000, 8000, 16000, 32000, 65000] {
        let Some((pre, b)) = family(name, n) else { return };
        let mut best = f64::MAX;
        for _ in 0..5 {
            let mut p = netflow_parser::NetflowParser::default();
            for c in &pre {
                p.parse_bytes(c);
            }
            let t0 = std::time::Instant::now();
            let r = p.parse_bytes(&b);
            let dt = t0.elapsed().as_secs_f64();
            let t1 = std::time::Instant::now();
            drop(r);
            let dd = t1.elapsed().as_secs_f64();
            best = best.min(dt);
            if n == 65000 { eprintln!("   parse {:.2} ms drop {:.2} ms", dt * 1e3, dd * 1e3); }
        }
        println!("{} n={} buf={} best={:.3} ms  per-unit={:.1} ns", name, n, b.len(), best * 1e3, best * 1e9 / n as f64);
    }
}
