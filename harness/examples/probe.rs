//! scratch probe
fn main() {
    for (a, b, c, d) in [(10u8, 1u8, 140u8, 77u8), (200, 5, 30, 9), (7, 9, 250, 250), (7, 13, 100, 3)] {
        let d1 = nfv::props::c13::make_projected(false, vec![0, 2], false, false, vec![(a, b, c, d)], 12345);
        println!("{:?}", d1.fields.iter().map(|f| (f.ie, f.len, f.ent)).collect::<Vec<_>>());
    }
}
