//! scratch probe: reduced-size encodings (RFC 7011 6.2) of float64 and of the projected elements
use netflow_parser::{NetflowPacket, NetflowParser};
use nfv::wire::*;

fn ipfix(body: &[u8]) -> Vec<u8> {
    let mut w = W::default();
    enc_ipfix_header(&mut w, (16 + body.len()) as u16, &[1, 2, 3]);
    w.bytes(body);
    w.0
}
fn v9(count: u16, body: &[u8]) -> Vec<u8> {
    let mut w = W::default();
    enc_v9_header(&mut w, count, &[1, 2, 3, 4]);
    w.bytes(body);
    w.0
}
fn tpl(proto: Proto, id: u16, fields: &[(u16, u16)]) -> Vec<u8> {
    let d = Def { kind: Kind::Plain, scope_n: 0, fields: fields.iter().map(|(ie, len)| FieldSpec { ie: *ie, len: *len, ent: None }).collect() };
    let mut r = W::default();
    enc_template_record(&mut r, proto, id, &d);
    let mut s = W::default();
    enc_set(&mut s, template_set_id(proto, Kind::Plain), &r.0, 0);
    s.0
}
fn data(id: u16, body: &[u8]) -> Vec<u8> {
    let mut s = W::default();
    enc_set(&mut s, id, body, 0);
    s.0
}
fn main() {
    // float64 element 311 sent as 4 bytes, followed by a 2-byte port
    let mut p = NetflowParser::default();
    let mut b = tpl(Proto::Ipfix, 256, &[(311, 4), (7, 2)]);
    b.extend(data(256, &[0x3f, 0x80, 0, 0, 0x12, 0x34, 0x40, 0, 0, 0, 0x56, 0x78]));
    let r = p.parse_bytes(&ipfix(&b));
    println!("float64 as 4 bytes: {}", serde_json::to_string(&r).unwrap());
    // reduced-size projected elements: port in 1 byte, sysUpTime in 2, protocol in 1
    for (name, proto) in [("ipfix", Proto::Ipfix), ("v9", Proto::V9)] {
        let mut p = NetflowParser::default();
        let mut b = tpl(proto, 300, &[(7, 1), (11, 4), (22, 2), (21, 8), (4, 1), (8, 4)]);
        b.extend(data(300, &[80, 0, 0, 1, 187, 0x10, 0x00, 0, 0, 0, 0, 0, 0, 0x20, 0x00, 6, 10, 0, 0, 1]));
        let pkt = match proto { Proto::Ipfix => ipfix(&b), Proto::V9 => v9(2, &b) };
        let r = p.parse_bytes(&pkt);
        for e in &r {
            match e {
                NetflowPacket::Error(x) => println!("{} error {:?}", name, x.error),
                _ => println!("{} common: {:?}", name, e.as_netflow_common().map(|c| c.flowsets)),
            }
        }
    }
}
