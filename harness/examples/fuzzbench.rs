//! time each oracle over a corpus directory (release build, no sanitizer)
use nfv::props;
use std::time::Instant;
fn main() {
    let dir = std::env::args().nth(1).unwrap();
    nfv::engine::install_quiet_panic_hook();
    let mut tot = [0f64; 6];
    let mut worst: Vec<(f64, String, usize)> = vec![];
    let mut n = 0;
    for e in std::fs::read_dir(&dir).unwrap() {
        let p = e.unwrap().path();
        let data = std::fs::read(&p).unwrap();
        let case = nfv::fuzzglue::decode(&data);
        if case.calls.is_empty() { continue; }
        n += 1;
        let fs: [(&str, Box<dyn Fn()>); 5] = [
            ("C01", Box::new(|| { props::c01::exec_on_small_stack(&case); })),
            ("C02", Box::new(|| { props::c02::oracle(&case); })),
            ("C09", Box::new(|| { props::reexport::oracle_c09(&case); })),
            ("C10", Box::new(|| { props::reexport::oracle_c10(&case); })),
            ("C16", Box::new(|| { props::c16::oracle(&case); })),
        ];
        for (i, (name, f)) in fs.iter().enumerate() {
            let t = Instant::now();
            f();
            let d = t.elapsed().as_secs_f64();
            tot[i] += d;
            if d > 0.05 { worst.push((d, format!("{} {}", name, p.display()), data.len())); }
        }
    }
    println!("{} inputs; totals C01 {:.2}s C02 {:.2}s C09 {:.2}s C10 {:.2}s C16 {:.2}s", n, tot[0], tot[1], tot[2], tot[3], tot[4]);
    worst.sort_by(|a, b| b.0.partial_cmp(&a.0).unwrap());
    for w in worst.iter().take(8) { println!("{:.2}s {} ({} bytes)", w.0, w.1, w.2); }
}
