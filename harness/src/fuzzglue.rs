//! Glue between libFuzzer targets and the property oracles.

use crate::engine::{load_findings, Call, Case, Outcome, Verdict, VERIF_DIR};
use crate::props;
use std::collections::{BTreeMap, BTreeSet};
use std::sync::OnceLock;

/// bytes -> case. Layout: [mask][n_extra (mod 4)][extras: 2 bytes each]([len: u16][bytes])*
pub fn decode(data: &[u8]) -> Case {
    let mut allowed: Vec<u16> = vec![];
    let mut p = 0usize;
    let mask = data.first().copied().unwrap_or(0x0f);
    p += 1;
    for (i, v) in [5u16, 7, 9, 10].iter().enumerate() {
        // bit set = version removed; most inputs keep all four
        if mask >> i & 1 == 0 || mask & 0x80 == 0 {
            allowed.push(*v);
        }
    }
    let n_extra = data.get(p).copied().unwrap_or(0) % 4;
    p += 1;
    for _ in 0..n_extra {
        if p + 2 <= data.len() {
            allowed.push(u16::from_be_bytes([data[p], data[p + 1]]));
            p += 2;
        }
    }
    let mut calls = vec![];
    while p + 2 <= data.len() && calls.len() < 8 {
        let l = u16::from_be_bytes([data[p], data[p + 1]]) as usize;
        p += 2;
        let end = (p + l).min(data.len());
        calls.push(Call::one(data[p..end].to_vec()));
        p = end;
    }
    Case { allowed: vec![allowed], calls, params: BTreeMap::new() }
}

/// case -> bytes (for seeding the corpus)
pub fn encode(case: &Case) -> Vec<u8> {
    let a = case.allowed_of(0);
    let mut mask = 0x80u8;
    for (i, v) in [5u16, 7, 9, 10].iter().enumerate() {
        if !a.contains(v) {
            mask |= 1 << i;
        }
    }
    let extras: Vec<u16> = a.iter().cloned().filter(|v| ![5, 7, 9, 10].contains(v)).take(3).collect();
    let mut out = vec![mask, extras.len() as u8];
    for e in &extras {
        out.extend_from_slice(&e.to_be_bytes());
    }
    for c in case.calls.iter().take(8) {
        let b = c.buf();
        let b = &b[..b.len().min(65535)];
        out.extend_from_slice(&(b.len() as u16).to_be_bytes());
        out.extend_from_slice(b);
    }
    out
}

fn open_sigs() -> &'static BTreeMap<String, BTreeSet<String>> {
    static S: OnceLock<BTreeMap<String, BTreeSet<String>>> = OnceLock::new();
    S.get_or_init(|| {
        let mut m: BTreeMap<String, BTreeSet<String>> = BTreeMap::new();
        for f in load_findings() {
            if f.open {
                m.entry(f.property).or_default().insert(f.sig);
            }
        }
        m
    })
}

fn report(id: &str, msg: &str, case: &Case) -> ! {
    let dir = format!("{}/replays", VERIF_DIR);
    let _ = std::fs::create_dir_all(&dir);
    let path = format!("{}/{}-fuzz-{:016x}.json", dir, id, case.digest());
    let mut j = case.to_json(usize::MAX);
    j["property"] = serde_json::json!(id);
    j["message"] = serde_json::json!(msg);
    let _ = std::fs::write(&path, serde_json::to_string_pretty(&j).unwrap());
    println!("violation detail: {}", msg);
    println!("VIOLATION property={} replay={}", id, path);
    std::process::abort();
}

fn settle(id: &str, o: Outcome, case: &Case) {
    match &o.verdict {
        Verdict::Violation(m) => report(id, m, case),
        Verdict::Harness(m) => {
            // a harness contradiction must not be reported as a finding about the library
            eprintln!("harness error in fuzz target ({}): {}", id, m);
            std::process::exit(2);
        }
        Verdict::Pass => {
            let empty = BTreeSet::new();
            let open = open_sigs().get(id).unwrap_or(&empty);
            for k in &o.known {
                if !open.contains(k) {
                    report(id, &format!("behaviour matches finding signature '{}' which is not an open entry for {}", k, id), case);
                }
            }
        }
    }
}

/// which oracles a target applies; NFV_FUZZ_PROPS=C02,C16 restricts (thorough tiers pass their own id)
fn selected() -> &'static Vec<String> {
    static S: OnceLock<Vec<String>> = OnceLock::new();
    S.get_or_init(|| {
        std::env::var("NFV_FUZZ_PROPS")
            .map(|s| s.split(',').map(|x| x.trim().to_string()).collect())
            .unwrap_or_else(|_| vec!["C01".into(), "C02".into(), "C09".into(), "C10".into(), "C12".into(), "C16".into()])
    })
}

pub fn run(data: &[u8]) {
    static HOOK: OnceLock<()> = OnceLock::new();
    HOOK.get_or_init(crate::engine::install_quiet_panic_hook);
    let case = decode(data);
    if case.calls.is_empty() {
        return;
    }
    // the heavier oracles are skipped for inputs whose result is huge (zero-length-field
    // amplification, finding D22 of C15): they would dominate the campaign's time
    let heavy = result_weight(&case) > 20_000;
    for id in selected() {
        if heavy && id != "C01" && id != "C02" {
            continue;
        }
        let o = match id.as_str() {
            "C01" => props::c01::exec_on_small_stack(&case),
            "C02" => crate::engine::guarded(&props::c02::oracle, &case),
            "C09" => crate::engine::guarded(&props::reexport::oracle_c09, &case),
            "C10" => crate::engine::guarded(&props::reexport::oracle_c10, &case),
            "C12" => {
                let mut c = case.clone();
                let ex: Vec<u16> = c.allowed_of(0).into_iter().filter(|v| ![5, 7, 9, 10].contains(v)).collect();
                c.allowed = vec![ex];
                crate::engine::guarded(&props::c12::oracle, &c)
            }
            "C16" => crate::engine::guarded(&props::c16::oracle, &case),
            _ => continue,
        };
        settle(id, o, &case);
    }
}

/// number of decoded field values a case yields (one throw-away parse)
fn result_weight(case: &Case) -> usize {
    use netflow_parser::variable_versions::{ipfix, v9};
    use netflow_parser::NetflowPacket;
    let mut p = crate::obs::new_parser(&case.allowed_of(0));
    let mut w = 0usize;
    for c in &case.calls {
        for el in p.parse_bytes(&c.buf()) {
            match el {
                NetflowPacket::V9(x) => {
                    for f in &x.flowsets {
                        if let v9::FlowSetBody::Data(d) = &f.body {
                            w += d.fields.iter().map(|r| r.len()).sum::<usize>();
                        }
                    }
                }
                NetflowPacket::IPFix(x) => {
                    for f in &x.flowsets {
                        match &f.body {
                            ipfix::FlowSetBody::Data(d) => w += d.fields.len(),
                            ipfix::FlowSetBody::OptionsData(d) => w += d.fields.len(),
                            _ => {}
                        }
                    }
                }
                _ => {}
            }
        }
    }
    w
}
