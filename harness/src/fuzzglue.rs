//! Glue between libFuzzer targets and the property oracles.

use crate::engine::{load_findings, Call, Case, Outcome, Verdict};
use crate::props;
use std::collections::{BTreeMap, BTreeSet};
use std::sync::OnceLock;

/// bytes -> case. Layout: [mask][n_extra (mod 4)][extras: 2 bytes each]([len: u16][bytes])*
pub fn decode(data: &[u8]) -> Case {
    let mut allowed: Vec<u16> = vec![];
    let mut p = 0usize;
    let mask = data.first().copied().unwrap_or(0x0f);
    p += 1;
    for (i, v) in [5u16, 7, 9, 10].iter().enumerate() {
        // bit set = version removed; most inputs keep all four
        if mask >> i & 1 == 0 || mask & 0x80 == 0 {
            allowed.push(*v);
        }
    }
    let n_extra = data.get(p).copied().unwrap_or(0) % 4;
    p += 1;
    for _ in 0..n_extra {
        if p + 2 <= data.len() {
            allowed.push(u16::from_be_bytes([data[p], data[p + 1]]));
            p += 2;
        }
    }
    let mut calls = vec![];
    while p + 2 <= data.len() && calls.len() < 8 {
        let l = u16::from_be_bytes([data[p], data[p + 1]]) as usize;
        p += 2;
        let end = (p + l).min(data.len());
        calls.push(Call::one(data[p..end].to_vec()));
        p = end;
    }
    Case { allowed: vec![allowed], calls, params: BTreeMap::new() }
}

/// case -> bytes (for seeding the corpus)
pub fn encode(case: &Case) -> Vec<u8> {
    let a = case.allowed_of(0);
    let mut mask = 0x80u8;
    for (i, v) in [5u16, 7, 9, 10].iter().enumerate() {
        if !a.contains(v) {
            mask |= 1 << i;
        }
    }
    let extras: Vec<u16> = a.iter().cloned().filter(|v| ![5, 7, 9, 10].contains(v)).take(3).collect();
    let mut out = vec![mask, extras.len() as u8];
    for e in &extras {
        out.extend_from_slice(&e.to_be_bytes());
    }
    for c in case.calls.iter().take(8) {
        let b = c.buf();
        let b = &b[..b.len().min(65535)];
        out.extend_from_slice(&(b.len() as u16).to_be_bytes());
        out.extend_from_slice(b);
    }
    out
}

fn open_sigs() -> &'static BTreeMap<String, BTreeSet<String>> {
    static S: OnceLock<BTreeMap<String, BTreeSet<String>>> = OnceLock::new();
    S.get_or_init(|| {
        let mut m: BTreeMap<String, BTreeSet<String>> = BTreeMap::new();
        for f in load_findings() {
            if f.open {
                m.entry(f.property).or_default().insert(f.sig);
            }
        }
        m
    })
}

fn report(id: &str, msg: &str, case: &Case) -> ! {
    let dir = crate::engine::out_dir("replays");
    let _ = std::fs::create_dir_all(&dir);
    let path = format!("{}/{}-fuzz-{:016x}.json", dir, id, case.digest());
    let mut j = case.to_json(usize::MAX);
    j["property"] = serde_json::json!(id);
    j["message"] = serde_json::json!(msg);
    let _ = std::fs::write(&path, serde_json::to_string_pretty(&j).unwrap());
    println!("violation detail: {}", msg);
    println!("VIOLATION property={} replay={}", id, path);
    std::process::abort();
}

fn settle(id: &str, o: Outcome, case: &Case) {
    match &o.verdict {
        Verdict::Violation(m) => report(id, m, case),
        Verdict::Harness(m) => {
            // a harness contradiction must not be reported as a finding about the library
            eprintln!("harness error in fuzz target ({}): {}", id, m);
            std::process::exit(2);
        }
        Verdict::Pass => {
            let empty = BTreeSet::new();
            let open = open_sigs().get(id).unwrap_or(&empty);
            for k in &o.known {
                if !open.contains(k) {
                    report(id, &format!("behaviour matches finding signature '{}' which is not an open entry for {}", k, id), case);
                }
            }
        }
    }
}

/// which oracles a target applies; NFV_FUZZ_PROPS=C02,C16 restricts (thorough tiers pass their own id)
fn selected() -> &'static Vec<String> {
    static S: OnceLock<Vec<String>> = OnceLock::new();
    S.get_or_init(|| {
        std::env::var("NFV_FUZZ_PROPS")
            .map(|s| s.split(',').map(|x| x.trim().to_string()).collect())
            .unwrap_or_else(|_| vec!["C01".into(), "C02".into(), "C09".into(), "C10".into(), "C12".into(), "C16".into()])
    })
}

pub fn run(data: &[u8]) {
    static HOOK: OnceLock<()> = OnceLock::new();
    HOOK.get_or_init(crate::engine::install_quiet_panic_hook);
    let case = decode(data);
    if case.calls.is_empty() {
        return;
    }
    // the heavier oracles are skipped for inputs whose result is huge (zero-length-field
    // amplification, finding D22 of C15): they would dominate the campaign's time
    let heavy = result_weight(&case) > 20_000;
    for id in selected() {
        if heavy && id != "C01" && id != "C02" && id != "C15" {
            continue;
        }
        let o = match id.as_str() {
            "C01" => props::c01::exec_on_small_stack(&case),
            "C02" => crate::engine::guarded(&props::c02::oracle, &case),
            "C03" => crate::engine::guarded(&props::c03::oracle, &case),
            "C08" => crate::engine::guarded(&props::c08::oracle, &case),
            "C15" => crate::engine::guarded(&props::c15::oracle, &case),
            "C09" => crate::engine::guarded(&props::reexport::oracle_c09, &case),
            "C10" => crate::engine::guarded(&props::reexport::oracle_c10, &case),
            "C12" => {
                let mut c = case.clone();
                let ex: Vec<u16> = c.allowed_of(0).into_iter().filter(|v| ![5, 7, 9, 10].contains(v)).collect();
                c.allowed = vec![ex];
                crate::engine::guarded(&props::c12::oracle, &c)
            }
            "C16" => crate::engine::guarded(&props::c16::oracle, &case),
            _ => continue,
        };
        settle(id, o, &case);
    }
}

/// number of decoded field values a case yields (one throw-away parse)
fn result_weight(case: &Case) -> usize {
    use netflow_parser::variable_versions::{ipfix, v9};
    use netflow_parser::NetflowPacket;
    let mut p = crate::obs::new_parser(&case.allowed_of(0));
    let mut w = 0usize;
    for c in &case.calls {
        for el in p.parse_bytes(&c.buf()) {
            match el {
                NetflowPacket::V9(x) => {
                    for f in &x.flowsets {
                        if let v9::FlowSetBody::Data(d) = &f.body {
                            w += d.fields.iter().map(|r| r.len()).sum::<usize>();
                        }
                    }
                }
                NetflowPacket::IPFix(x) => {
                    for f in &x.flowsets {
                        match &f.body {
                            ipfix::FlowSetBody::Data(d) => w += d.fields.len(),
                            ipfix::FlowSetBody::OptionsData(d) => w += d.fields.len(),
                            _ => {}
                        }
                    }
                }
                _ => {}
            }
        }
    }
    w
}

// ---------------------------------------------------------------------------------------
// structure-aware target: fuzzer bytes are decoded into a *plan* (template pool, calls,
// packets, sets, per-record entropy) by a hand-written reader and built into a conformant
// stream by the same builder the proptest generators use.
//
// (proptest's pass-through RNG was tried first and abandoned: every `prop_oneof!` and
// `prop_flat_map` forks the RNG by halving the remaining input, so the stream is used up
// after a few dozen choices, after which it yields zeros and rand's uniform sampling
// rejects forever.)
// ---------------------------------------------------------------------------------------

use crate::gen::{self, BuildOpts, PktPlan, Pool, SetPlan, StreamPlan};
use crate::wire::{Def, Proto};

struct Rd<'a> {
    d: &'a [u8],
    p: usize,
}
impl<'a> Rd<'a> {
    fn u8(&mut self) -> u8 {
        let v = self.d.get(self.p).copied().unwrap_or(0);
        self.p += 1;
        v
    }
    fn below(&mut self, n: usize) -> usize {
        if n <= 1 {
            0
        } else {
            self.u8() as usize * n >> 8
        }
    }
    fn u32(&mut self) -> u32 {
        u32::from_be_bytes([self.u8(), self.u8(), self.u8(), self.u8()])
    }
    fn bytes(&mut self, n: usize) -> Vec<u8> {
        (0..n).map(|_| self.u8()).collect()
    }
    fn left(&self) -> usize {
        self.d.len().saturating_sub(self.p)
    }
}

fn rd_def(r: &mut Rd, proto: Proto, options: bool, max_fields: usize) -> Def {
    let n = 1 + r.below(max_fields);
    match proto {
        Proto::V9 => {
            if options {
                let sn = 1 + r.below(2);
                let mut fields: Vec<crate::wire::FieldSpec> = (0..sn)
                    .map(|_| crate::wire::FieldSpec { ie: 1 + r.below(5) as u16, len: 1 + r.below(4) as u16, ent: None })
                    .collect();
                for _ in 0..n.min(5) {
                    let (a, b, c) = (r.u8(), r.u8(), r.u8());
                    fields.push(gen::v9_field_pub(a, b, c));
                }
                Def { kind: crate::wire::Kind::Options, scope_n: sn as u16, fields }
            } else {
                let fields = (0..n).map(|_| { let (a, b, c) = (r.u8(), r.u8(), r.u8()); gen::v9_field_pub(a, b, c) }).collect();
                Def { kind: crate::wire::Kind::Plain, scope_n: 0, fields }
            }
        }
        Proto::Ipfix => {
            let mut fields: Vec<crate::wire::FieldSpec> =
                (0..n).map(|_| { let (a, b, c, d) = (r.u8(), r.u8(), r.u8(), r.u8()); gen::ipfix_field_pub(a, b, c, d) }).collect();
            gen::fix_zero_len_pub(&mut fields);
            let sc = r.u8() as usize;
            Def {
                kind: if options { crate::wire::Kind::Options } else { crate::wire::Kind::Plain },
                scope_n: if options { 1 + (sc % n.min(2)) as u16 } else { 0 },
                fields,
            }
        }
    }
}

fn rd_pool(r: &mut Rd, mixed: bool) -> Pool {
    let all = [256u16, 257, 258, 259, 300, 1024, 4096, 65535, 511, 260];
    let n = 2 + r.below(3);
    let start = r.below(all.len());
    let ids: Vec<u16> = (0..n).map(|i| all[(start + i * 3) % all.len()]).collect();
    let mk = |proto: Proto, r: &mut Rd| -> Vec<Vec<Def>> {
        (0..n)
            .map(|_| {
                let k = r.u8();
                let alts = 1 + r.below(3);
                let mut defs: Vec<Def> = (0..alts)
                    .map(|j| {
                        let is_opt = if mixed { (k >> (2 * j)) & 3 == 0 } else { k % 4 == 0 };
                        rd_def(r, proto, is_opt, 8)
                    })
                    .collect();
                for j in 1..defs.len() {
                    let (d, pos, w) = (r.u8(), r.u8(), r.u8());
                    if d < 150 && defs[0].kind == defs[j].kind {
                        defs[j] = gen::vary_pub(proto, &defs[0], &defs[j], d % 5, pos, w);
                    }
                }
                defs
            })
            .collect()
    };
    let v9 = mk(Proto::V9, r);
    let ipfix = mk(Proto::Ipfix, r);
    Pool { ids, v9, ipfix }
}

fn rd_sets(r: &mut Rd) -> Vec<SetPlan> {
    let n = 1 + r.below(5);
    (0..n)
        .map(|_| {
            if r.u8() < 80 {
                let k = 1 + r.below(3);
                SetPlan::Tpl((0..k).map(|_| (r.u8(), r.u8())).collect(), r.u8())
            } else {
                let id = r.u8();
                let nrec = r.below(6);
                let recs = (0..nrec).map(|_| { let l = r.below(14); r.bytes(l) }).collect();
                SetPlan::Data(id, recs, r.u8())
            }
        })
        .collect()
}

fn rd_packet(r: &mut Rd, mix: (u16, u16)) -> PktPlan {
    let sel = r.u8() as u16;
    if sel < mix.0 {
        let v7 = r.u8() & 1 == 1;
        let hdr = r.bytes(20);
        let n = r.below(3);
        PktPlan::Fixed { v7, hdr, recs: (0..n).map(|_| r.bytes(52)).collect() }
    } else if sel < mix.1 {
        PktPlan::V9 { hdr: [r.u32(), r.u32(), r.u32(), r.u32()], sets: rd_sets(r) }
    } else {
        PktPlan::Ipfix { hdr: [r.u32(), r.u32(), r.u32()], sets: rd_sets(r) }
    }
}

/// bytes -> case for property `id`
pub fn plan_case(id: &str, data: &[u8]) -> Option<Case> {
    let mut r = Rd { d: data, p: 0 };
    let mixed = matches!(id, "C06");
    // (below .0: V5/V7, below .1: V9, else IPFIX); C04/C05 keep to their own protocol so that
    // the other protocol's listed findings do not surface under the wrong property
    let mix: (u16, u16) = match id {
        "C04" | "C09" => (20, 256),
        "C05" | "C10" => (20, 20),
        _ => (40, 148),
    };
    if id == "C13" {
        // templates over the projected elements (natural widths), as C13's own generator builds them
        let all = [256u16, 257, 300, 1024, 65535];
        let n = 2 + r.below(3);
        let ids: Vec<u16> = all[..n].to_vec();
        let mk = |v9: bool, r: &mut Rd| -> Vec<Vec<Def>> {
            (0..n)
                .map(|_| {
                    let alts = 1 + r.below(2);
                    (0..alts)
                        .map(|_| {
                            let mask = u16::from(r.u8()) | (u16::from(r.u8() & 1) << 8);
                            let sel: Vec<usize> = (0..9).filter(|b| mask >> b & 1 == 1).collect();
                            let ne = r.below(5);
                            let extra = (0..ne).map(|_| (r.u8(), r.u8(), r.u8(), r.u8())).collect();
                            let f = r.u8();
                            props::c13::make_projected(v9, sel, f & 1 == 1, f & 2 == 2, extra, u64::from(r.u32()) << 8 | 1)
                        })
                        .collect()
                })
                .collect()
        };
        let v9 = mk(true, &mut r);
        let ipfix = mk(false, &mut r);
        let pool = Pool { ids, v9, ipfix };
        let n_calls = 1 + r.below(3);
        let calls: Vec<Vec<PktPlan>> = (0..n_calls).map(|_| { let k = 1 + r.below(3); (0..k).map(|_| rd_packet(&mut r, (50, 153))).collect() }).collect();
        let built = gen::build(&StreamPlan { pool, calls }, &BuildOpts { count_by_flowsets: true, ..BuildOpts::STRICT });
        return Some(Case { allowed: vec![crate::engine::DEFAULT_ALLOWED.to_vec()], calls: built.calls, params: BTreeMap::new() });
    }
    let pool = rd_pool(&mut r, mixed);
    if id == "C07" {
        let n_calls = 1 + r.below(4);
        let calls: Vec<Vec<PktPlan>> = (0..n_calls).map(|_| { let k = 1 + r.below(3); (0..k).map(|_| rd_packet(&mut r, (30, 143))).collect() }).collect();
        let is_v9 = r.u8() & 1 == 1;
        let sel = r.u8();
        let nrec = 1 + r.below(3);
        let recs = (0..nrec).map(|_| { let l = r.below(12); r.bytes(l) }).collect();
        let (wc, wa) = (r.u8(), r.u8());
        let extra = if r.u8() % 16 == 0 { 70 + r.below(4) * 60 } else { r.below(3) };
        return Some(props::c07::assemble(pool, calls, is_v9, sel, recs, wc, wa, extra));
    }
    let mut calls: Vec<Vec<PktPlan>> = vec![];
    let mut parsers: Vec<usize> = vec![];
    let n_calls = if id == "C11" { 1 } else { 1 + r.below(5) };
    for _ in 0..n_calls {
        if r.left() == 0 && !calls.is_empty() {
            break;
        }
        let n_pk = if id == "C11" { 1 + r.below(7) } else { 1 + r.below(3) };
        parsers.push((r.u8() & 1) as usize);
        calls.push((0..n_pk).map(|_| rd_packet(&mut r, mix)).collect());
    }
    let by_flowsets = matches!(id, "C06" | "C11" | "C14");
    let opts = match id {
        "C06" | "C14" => BuildOpts { count_by_flowsets: true, ..BuildOpts::STRICT },
        "C11" => BuildOpts { count_by_flowsets: true, ..BuildOpts::WIDE },
        _ => BuildOpts::WIDE,
    };
    let _ = by_flowsets;
    let built = gen::build(&StreamPlan { pool, calls }, &opts);
    let mut case = Case { allowed: vec![crate::engine::DEFAULT_ALLOWED.to_vec(); 2], calls: built.calls, params: BTreeMap::new() };
    if id == "C06" {
        for (c, p) in case.calls.iter_mut().zip(parsers.iter()) {
            c.parser = *p;
        }
    }
    if id == "C11" {
        case.allowed.truncate(1);
        // retransmission: one packet repeated right after itself
        let d = r.u8();
        if d & 1 == 1 {
            if let Some(c) = case.calls.get_mut(0) {
                if !c.packets.is_empty() {
                    let i = (d as usize >> 1) % c.packets.len();
                    let pk = c.packets[i].clone();
                    c.packets.insert(i + 1, pk);
                }
            }
        }
    }
    if case.calls.iter().all(|c| c.packets.is_empty()) {
        return None;
    }
    Some(case)
}

/// fuzz_plan: the property is chosen with NFV_FUZZ_PROPS (first entry); the oracle is the
/// property's own.
pub fn run_plan(data: &[u8]) {
    static HOOK: OnceLock<()> = OnceLock::new();
    HOOK.get_or_init(crate::engine::install_quiet_panic_hook);
    let id = selected().first().cloned().unwrap_or_else(|| "C05".to_string());
    let Some(case) = plan_case(&id, data) else { return };
    let oracle: fn(&Case) -> Outcome = match id.as_str() {
        "C04" => props::c04::oracle,
        "C05" => props::c05::oracle,
        "C06" => props::c06::oracle,
        "C07" => props::c07::oracle,
        "C13" => props::c13::oracle,
        "C09" => props::reexport::oracle_c09,
        "C10" => props::reexport::oracle_c10,
        "C11" => props::c11::oracle,
        "C14" => props::c14::oracle,
        "C16" => props::c16::oracle,
        _ => return,
    };
    let o = crate::engine::guarded(&oracle, &case);
    settle(&id, o, &case);
}
