//! C11 - packets chained in one buffer decode exactly as if delivered one per call.

use super::PropDef;
use crate::engine::{Call, Case, Ctx, Outcome};
use crate::gen::{self, BuildOpts, Mix, StreamCfg};
use crate::obs;
use crate::wire::*;
use proptest::prelude::*;

pub const DEF: PropDef = PropDef {
    id: "C11",
    run,
    oracle,
    rule: "cases = sequences of 1..8 (thorough: up to 12, and a tail of up to 300) self-delimiting packets mixing V5, V7, IPFIX and V9 (count = number of flowsets) built from a conformant plan, with template-before-data dependencies across packets, redefinitions, sequences whose concatenation exceeds 64 KiB, header-only packets (set-less IPFIX messages, V9 packets without flowsets, V5/V7 without records; one packet in sixteen, and dedicated chains where six in seven are header-only), byte-identical repeats of up to two packets (retransmissions: adjacent, and again further down the sequence), and optionally a last packet carrying data for an unknown template (an error ends a buffer, so it is only comparable in last position). Oracle: for every partition of the sequence into consecutive calls (all 2^(n-1) for n <= 8, 64 sampled by a deterministic stride beyond), the concatenated results (compared through their complete Debug rendering, which includes padding, plus to_be_bytes) and the final cache state equal those of the one-packet-per-call run on a fresh parser. non-trivial = n >= 3, >= 2 versions present, and some packet decodes data under a template defined by an earlier packet of the sequence; distinct by digest.",
    assumptions: &["Debug rendering of result elements is complete (derived on every result type) and deterministic (results hold no hash maps)"],
};

fn is_cut(cuts: u64, i: usize) -> bool {
    // bit i of `cuts` set = a call boundary after packet i (pattern re-used, rotated, beyond 64)
    cuts == u64::MAX || (cuts.rotate_left((i / 64) as u32 * 7) >> (i % 64)) & 1 == 1
}

fn run_partition(pkts: &[Vec<u8>], cuts: u64) -> (Vec<String>, String) {
    let mut p = obs::new_parser(&crate::engine::DEFAULT_ALLOWED);
    let mut out = vec![];
    let mut buf: Vec<u8> = vec![];
    for (i, pk) in pkts.iter().enumerate() {
        buf.extend_from_slice(pk);
        let last = i + 1 == pkts.len();
        if last || is_cut(cuts, i) {
            for el in p.parse_bytes(&buf) {
                let exported: String = match &el {
                    netflow_parser::NetflowPacket::V5(v) => hex(&v.to_be_bytes()),
                    netflow_parser::NetflowPacket::V7(v) => hex(&v.to_be_bytes()),
                    netflow_parser::NetflowPacket::V9(v) => v.to_be_bytes().map(|b| hex(&b)).unwrap_or_else(|e| format!("error {}", e)),
                    netflow_parser::NetflowPacket::IPFix(v) => v.to_be_bytes().map(|b| hex(&b)).unwrap_or_else(|e| format!("error {}", e)),
                    netflow_parser::NetflowPacket::Error(_) => String::new(),
                };
                out.push(format!("{} export={}", obs::render(&el), exported));
            }
            buf.clear();
        }
    }
    (out, obs::cache_fingerprint(&p))
}

pub fn oracle(case: &Case) -> Outcome {
    let mut o = Outcome::pass();
    let pkts: Vec<Vec<u8>> = case.calls.iter().flat_map(|c| c.packets.iter().cloned()).collect();
    let n = pkts.len();
    if n == 0 {
        return o;
    }
    let all = u64::MAX;
    let (base, base_cache) = run_partition(&pkts, all);
    let parts: Vec<u64> = if n <= 8 {
        (0..(1u64 << (n - 1))).collect()
    } else {
        // deterministic sample: none, single cuts spread out, strides, complement patterns
        let mut v = vec![0u64];
        let mut x: u64 = 0x9e3779b97f4a7c15 ^ case.digest();
        for _ in 0..63 {
            x ^= x << 13;
            x ^= x >> 7;
            x ^= x << 17;
            v.push(x & (u64::MAX >> 1));
        }
        v
    };
    for cuts in &parts {
        let (res, cache) = run_partition(&pkts, *cuts);
        if res != base {
            let k = res.iter().zip(base.iter()).position(|(a, b)| a != b).unwrap_or(res.len().min(base.len()));
            return Outcome::violation(format!(
                "partition {:#b} of {} packets: {} elements vs {} one-per-call; first difference at element {}: {} <> {}",
                cuts,
                n,
                res.len(),
                base.len(),
                k,
                res.get(k).map(|s| s.chars().take(200).collect::<String>()).unwrap_or_default(),
                base.get(k).map(|s| s.chars().take(200).collect::<String>()).unwrap_or_default()
            ));
        }
        if cache != base_cache {
            return Outcome::violation(format!("partition {:#b} of {} packets leaves a different template cache", cuts, n));
        }
    }
    // labels / non-triviality (computed with the reference decoder)
    let mut versions = std::collections::BTreeSet::new();
    let mut cache = Cache::default();
    let mut dependent = false;
    for (i, pk) in pkts.iter().enumerate() {
        if pk.len() < 2 {
            continue;
        }
        let v = be16(pk, 0);
        versions.insert(v);
        let before = cache.clone();
        let r = match v {
            9 => crate::refdec::dec_v9(pk, &mut cache).ok(),
            10 => crate::refdec::dec_ipfix(pk, &mut cache).ok(),
            _ => None,
        };
        if let Some(r) = r {
            for s in &r.sets {
                if let crate::refdec::RefBody::Data { .. } = s.body {
                    if i > 0 && before.map(r.proto).contains_key(&s.id) {
                        dependent = true;
                    }
                }
            }
            if r.has_unknown() {
                o.label("last-packet-unknown-template");
            }
        }
    }
    if n >= 3 && versions.len() >= 2 && dependent {
        o.nontrivial = true;
    }
    if pkts.windows(2).any(|w| w[0] == w[1] && w[0].len() >= 2 && matches!(be16(&w[0], 0), 9 | 10)) {
        o.label("adjacent-identical-v9/ipfix-packets");
    }
    if pkts.iter().map(|p| p.len()).sum::<usize>() > 65535 {
        o.label("sequence-longer-than-64KiB");
    }
    o.label(format!("n={}", n.min(13)));
    o.label(format!("partitions={}", parts.len()));
    if dependent {
        o.label("cross-packet-template-dependency");
    }
    o
}

pub fn seq_case(min: usize, max: usize, max_recs: usize) -> BoxedStrategy<Case> {
    seq_case_with(min, max, max_recs, false)
}

/// `minimal_heavy`: six packets in seven are header-only (set-less IPFIX messages of 16 bytes,
/// V9 packets without flowsets, V5/V7 packets without records)
pub fn seq_case_with(min: usize, max: usize, max_recs: usize, minimal_heavy: bool) -> BoxedStrategy<Case> {
    let cfg = StreamCfg {
        mix: Mix { fixed: 3, v9: 4, ipfix: 4 },
        ids: (2, 4),
        max_fields: 6,
        calls: (1, 1),
        pkts_per_call: (min, max),
        max_sets: 3,
        max_recs,
        mixed_kinds: false,
    };
    let pk = if minimal_heavy {
        gen::pkt_plan_minimal_heavy(Mix { fixed: 1, v9: 2, ipfix: 6 }, cfg.max_sets, cfg.max_recs)
    } else {
        gen::pkt_plan(cfg.mix, cfg.max_sets, cfg.max_recs)
    };
    let call = proptest::collection::vec(pk, min..=max);
    // retransmissions: up to two packets are repeated (1-2 extra byte-identical copies right
    // after the original), as exporters do with template refreshes
    let dups = proptest::collection::vec((any::<proptest::sample::Index>(), 1usize..=2), 0..=2);
    (gen::pool(2..=4, 6, false), call, 0u8..8, dups)
        .prop_map(|(pool, pkts, tail, dups)| {
            let plan = gen::StreamPlan { pool, calls: vec![pkts] };
            let b = gen::build(&plan, &BuildOpts { count_by_flowsets: true, ..BuildOpts::WIDE });
            let mut packets = b.calls.into_iter().next().map(|c| c.packets).unwrap_or_default();
            for (ix, copies) in dups {
                if packets.is_empty() {
                    break;
                }
                let i = ix.index(packets.len());
                let pk = packets[i].clone();
                if copies == 2 {
                    // one adjacent copy and one further down (A .. B .. A)
                    let j = i + 1 + (pk.len() + i) % (packets.len() - i);
                    packets.insert(j, pk.clone());
                }
                packets.insert(i + 1, pk);
            }
            match tail {
                0 => {
                    // V9 packet with data for an id nobody defined
                    let mut w = W::default();
                    enc_v9_header(&mut w, 1, &[1, 2, 3, 4]);
                    enc_set(&mut w, 9999, &[1, 2, 3, 4], 0);
                    packets.push(w.0);
                }
                1 => {
                    let mut w = W::default();
                    enc_ipfix_header(&mut w, 24, &[1, 2, 3]);
                    enc_set(&mut w, 9999, &[1, 2, 3, 4], 0);
                    packets.push(w.0);
                }
                _ => {}
            }
            Case { calls: vec![Call { parser: 0, packets }], ..Case::single(vec![]) }
        })
        .boxed()
}

pub fn run(ctx: &Ctx) {
    ctx.replay_findings(&oracle);
    ctx.search("all-partitions-n<=8", ctx.n(60_000, 5_000_000), &|| seq_case(1, 7, 3), &oracle);
    ctx.search("sampled-partitions-n<=12", ctx.n(6_000, 600_000), &|| seq_case(8, 11, 2), &oracle);
    ctx.search("header-only-packet-chains-n<=8", ctx.n(4_000, 400_000), &|| seq_case_with(4, 8, 2, true), &oracle);
    ctx.search("header-only-packet-chains-n<=40", ctx.n(600, 60_000), &|| seq_case_with(9, 40, 2, true), &oracle);
    // call buffers far beyond one datagram (replayed capture files, TCP transports)
    ctx.search("buffers-beyond-64KiB", ctx.n(160, 8_000), &|| seq_case(8, 14, 120), &oracle);
    if ctx.thorough() {
        ctx.search("long-sequences", 20_000, &|| seq_case(50, 300, 1), &oracle);
    } else {
        ctx.search("long-sequences", ctx.n(150, 150), &|| seq_case(30, 120, 1), &oracle);
    }
}
