//! C13 - the common-flow view is a faithful projection of what was decoded.

use super::PropDef;
use crate::engine::{Call, Case, Ctx, Outcome};
use crate::gen::{self, BuildOpts, Mix};
use crate::obs;
use crate::refdec::{dec_fixed, dec_ipfix, dec_v9, iana_names, norm_name, RefBody, RefPkt};
use crate::wire::*;
use netflow_parser::netflow_common::NetflowCommonFlowSet;
use netflow_parser::NetflowPacket;
use proptest::prelude::*;
use std::net::{IpAddr, Ipv4Addr, Ipv6Addr};

pub const DEF: PropDef = PropDef {
    id: "C13",
    run,
    oracle,
    rule: "cases = V5/V7 packets (raw-byte records) and conformant V9/IPFIX histories whose templates contain a random subset, in random order, of the ten projected elements (source/destination address in the IPv4 or the IPv6 variant, one template in eight with both, ports, protocol, first/last switched resp. flowStart/EndSysUpTime, source/destination MAC; natural widths, IPFIX ports and sysUpTime also in the reduced sizes RFC 7011 6.2 allows) mixed with 0..4 unrelated fields (a fixed pool of counters, strings, post-MACs, direction / version / end-reason elements, or any element of the library's table in a legal width; IPFIX: also enterprise-specific elements, some numbered like a projected element, which must not be projected); 1..20 records per data set, several data sets and packets per buffer, options templates/data and template sets in between, optionally a truncated packet at the end (an Error element). Oracle: projection computed by the harness from the independent reference decode of the bytes: version; timestamp (sys_up_time for V5/V7/V9, export_time for IPFIX); one flow per data record in order; every member is Some(value derived from the wire bytes) iff the record's template has that element, else None; as_netflow_common must equal it member by member, Error elements must convert to Err, and parse_bytes_as_netflow_common_flowsets on a twin parser must equal the in-order concatenation over the non-error elements; the view of every earlier element is taken again after the rest of the history and must not have changed. non-trivial = a V9/IPFIX data set with >= 2 records whose template has >= 3 projected elements and >= 1 unrelated one; distinct by digest.",
    assumptions: &["projected elements are generated with their natural widths (ports 2, protocol 1, times 4, addresses 4/16, MAC 6; IPFIX ports also 1 and sysUpTime also 1-3 bytes) and at most once per template"],
};

#[derive(Debug, Clone, PartialEq, Default)]
struct Flow {
    src_addr: Option<IpAddr>,
    dst_addr: Option<IpAddr>,
    src_port: Option<u16>,
    dst_port: Option<u16>,
    protocol_number: Option<u8>,
    /// expected protocol number whose IANA name the protocol_type must carry
    protocol_name_of: Option<u8>,
    first_seen: Option<u32>,
    last_seen: Option<u32>,
    src_mac: Option<String>,
    dst_mac: Option<String>,
    /// the IPv6 variant when the template carries both variants of an address (the
    /// statement does not say which one the view shows: either is accepted)
    src_alt: Option<IpAddr>,
    dst_alt: Option<IpAddr>,
}

fn ipaddr(b: &[u8]) -> Option<IpAddr> {
    match b.len() {
        4 => Some(IpAddr::V4(Ipv4Addr::new(b[0], b[1], b[2], b[3]))),
        16 => {
            let mut a = [0u8; 16];
            a.copy_from_slice(b);
            Some(IpAddr::V6(Ipv6Addr::from(a)))
        }
        _ => None,
    }
}
/// big-endian unsigned value of a field sent in its natural or a reduced size
fn be_uint(b: &[u8]) -> u64 {
    b.iter().fold(0u64, |a, x| a << 8 | u64::from(*x))
}
fn mac(b: &[u8]) -> String {
    b.iter().map(|x| format!("{:02X}", x)).collect::<Vec<_>>().join(":")
}

/// expected flows of a V9 / IPFIX packet from its reference decode
fn expected_flows(r: &RefPkt) -> (Vec<Flow>, bool) {
    let mut out = vec![];
    let mut interesting = false;
    for s in &r.sets {
        let RefBody::Data { def, records, .. } = &s.body else { continue };
        if def.kind != Kind::Plain {
            continue;
        }
        let mut projected = 0;
        let mut unrelated = 0;
        for f in &def.fields {
            if f.ent.is_none() && [8u16, 27, 12, 28, 7, 11, 4, 22, 21, 56, 80].contains(&f.ie) {
                projected += 1;
            } else {
                unrelated += 1;
            }
        }
        if records.len() >= 2 && projected >= 3 && unrelated >= 1 {
            interesting = true;
        }
        for rec in records {
            let mut fl = Flow::default();
            // the IPv4 variant is preferred when a template carries both
            let mut v6s = None;
            let mut v6d = None;
            for (f, b) in def.fields.iter().zip(rec.iter()) {
                if f.ent.is_some() {
                    continue;
                }
                match f.ie {
                    8 => fl.src_addr = ipaddr(b),
                    27 => v6s = ipaddr(b),
                    12 => fl.dst_addr = ipaddr(b),
                    28 => v6d = ipaddr(b),
                    7 => fl.src_port = Some(be_uint(b) as u16),
                    11 => fl.dst_port = Some(be_uint(b) as u16),
                    4 => {
                        fl.protocol_number = Some(b[0]);
                        fl.protocol_name_of = Some(b[0]);
                    }
                    22 => fl.first_seen = Some(be_uint(b) as u32),
                    21 => fl.last_seen = Some(be_uint(b) as u32),
                    56 => fl.src_mac = Some(mac(b)),
                    80 => fl.dst_mac = Some(mac(b)),
                    _ => {}
                }
            }
            if fl.src_addr.is_none() {
                fl.src_addr = v6s;
            } else {
                fl.src_alt = v6s;
            }
            if fl.dst_addr.is_none() {
                fl.dst_addr = v6d;
            } else {
                fl.dst_alt = v6d;
            }
            out.push(fl);
        }
    }
    (out, interesting)
}

fn cmp_flow(o: &mut Outcome, proto: &str, k: usize, e: &Flow, g: &NetflowCommonFlowSet) -> Result<(), String> {
    macro_rules! member {
        ($name:ident) => {
            if e.$name != g.$name {
                return Err(format!(
                    "flow {}: {} is {:?}, the record's bytes give {:?}",
                    k,
                    stringify!($name),
                    g.$name,
                    e.$name
                ));
            }
        };
    }
    if e.src_addr != g.src_addr && !(e.src_alt.is_some() && e.src_alt == g.src_addr) {
        return Err(format!("flow {}: src_addr is {:?}, the record's bytes give {:?} (or {:?})", k, g.src_addr, e.src_addr, e.src_alt));
    }
    if e.dst_addr != g.dst_addr && !(e.dst_alt.is_some() && e.dst_alt == g.dst_addr) {
        return Err(format!("flow {}: dst_addr is {:?}, the record's bytes give {:?} (or {:?})", k, g.dst_addr, e.dst_addr, e.dst_alt));
    }
    if e.src_alt.is_some() || e.dst_alt.is_some() {
        o.label("template-with-ipv4-and-ipv6-variant");
    }
    member!(src_port);
    member!(dst_port);
    member!(first_seen);
    member!(last_seen);
    member!(src_mac);
    member!(dst_mac);
    if e.protocol_number != g.protocol_number {
        // V9 decodes PROTOCOL into an enum; numbers without a variant cannot be recovered
        let lost = proto == "v9" && matches!(e.protocol_number, Some(145..=254)) && g.protocol_number == Some(255);
        if lost {
            o.hit("v9:common:protocol-number:no-variant");
        } else {
            return Err(format!(
                "flow {}: protocol_number is {:?}, the record's bytes give {:?}",
                k, g.protocol_number, e.protocol_number
            ));
        }
    }
    match (e.protocol_name_of, &g.protocol_type) {
        (None, None) => {}
        (Some(n), Some(t)) => {
            let got = norm_name(&format!("{:?}", t));
            if !crate::refdec::proto_name_ok(n, &got) {
                let listed = matches!((n, got.as_str()), (0, "unknown") | (1, "hopopt") | (144, "reserved") | (255, "unknown"));
                if listed {
                    o.hit(format!("proto-name:{}:{}", n, got));
                } else {
                    return Err(format!("flow {}: protocol {} is named {:?} (IANA: {:?})", k, n, t, iana_names(n)));
                }
            }
        }
        (e, g) => return Err(format!("flow {}: protocol_type is {:?} but the record's protocol is {:?}", k, g, e)),
    }
    Ok(())
}

pub fn oracle(case: &Case) -> Outcome {
    let mut o = Outcome::pass();
    let allowed = case.allowed_of(0);
    let mut p = obs::new_parser(&allowed);
    let mut twin = obs::new_parser(&allowed);
    let mut model = Cache::default();
    // the common view of earlier results is taken once more after the whole history
    let mut kept: Vec<(usize, NetflowPacket, String)> = vec![];
    for (ci, c) in case.calls.iter().enumerate() {
        let buf = c.buf();
        let res = p.parse_bytes(&buf);
        if ci + 1 < case.calls.len() && kept.len() < 32 {
            for el in &res {
                kept.push((ci, el.clone(), format!("{:?}", el.as_netflow_common().map_err(|_| "error"))));
            }
        }
        let flat = twin.parse_bytes_as_netflow_common_flowsets(&buf);
        let mut concat: Vec<NetflowCommonFlowSet> = vec![];
        let mut off = 0usize;
        for (i, el) in res.iter().enumerate() {
            let at = |m: String| format!("call {} element {}: {}", ci, i, m);
            if let NetflowPacket::Error(_) = el {
                if el.as_netflow_common().is_ok() {
                    return Outcome::violation(at("an Error element converts to a common structure".into()));
                }
                o.label("error-element");
                break;
            }
            let common = match el.as_netflow_common() {
                Ok(c) => c,
                Err(_) => return Outcome::violation(at("as_netflow_common fails for a decoded packet".into())),
            };
            if off + 2 > buf.len() {
                return Outcome::harness("HARNESS: more elements than bytes");
            }
            let v = be16(&buf, off);
            if common.version != v {
                return Outcome::violation(at(format!("version {} reported for a V{} packet", common.version, v)));
            }
            let (flows, ts, len): (Vec<Flow>, u32, usize) = match v {
                5 | 7 => {
                    let Some(r) = dec_fixed(&buf[off..]) else { return Outcome::harness("HARNESS: truncated fixed packet decoded") };
                    let g = |n: &[(&'static str, u64)], k: &str| n.iter().find(|(a, _)| *a == k).map(|(_, v)| *v).unwrap();
                    let flows = r
                        .records
                        .iter()
                        .map(|rec| Flow {
                            src_addr: Some(IpAddr::V4(Ipv4Addr::from(g(rec, "src_addr") as u32))),
                            dst_addr: Some(IpAddr::V4(Ipv4Addr::from(g(rec, "dst_addr") as u32))),
                            src_port: Some(g(rec, "src_port") as u16),
                            dst_port: Some(g(rec, "dst_port") as u16),
                            protocol_number: Some(g(rec, "protocol_number") as u8),
                            protocol_name_of: Some(g(rec, "protocol_number") as u8),
                            first_seen: Some(g(rec, "first") as u32),
                            last_seen: Some(g(rec, "last") as u32),
                            src_mac: None,
                            dst_mac: None,
                            src_alt: None,
                            dst_alt: None,
                        })
                        .collect();
                    o.label(format!("v{}", v));
                    (flows, g(&r.header, "sys_up_time") as u32, r.len)
                }
                9 => {
                    let r = match dec_v9(&buf[off..], &mut model) {
                        Ok(r) => r,
                        Err(e) => return Outcome::harness(format!("HARNESS: V9 not conformant: {}", e.0)),
                    };
                    let (f, int) = expected_flows(&r);
                    if int {
                        o.nontrivial = true;
                    }
                    o.label("v9");
                    (f, r.header[1], r.len)
                }
                10 => {
                    let r = match dec_ipfix(&buf[off..], &mut model) {
                        Ok(r) => r,
                        Err(e) => return Outcome::harness(format!("HARNESS: IPFIX not conformant: {}", e.0)),
                    };
                    let (f, int) = expected_flows(&r);
                    if int {
                        o.nontrivial = true;
                    }
                    o.label("ipfix");
                    (f, r.header[1], r.len)
                }
                _ => return Outcome::harness("HARNESS: unexpected version"),
            };
            if common.timestamp != ts {
                return Outcome::violation(at(format!("timestamp {} reported, header says {}", common.timestamp, ts)));
            }
            if common.flowsets.len() != flows.len() {
                if v == 10 {
                    // finding D19 shape check: one "flow" per decoded field
                    let nfields: usize = match el {
                        NetflowPacket::IPFix(m) => m
                            .flowsets
                            .iter()
                            .map(|f| match &f.body {
                                netflow_parser::variable_versions::ipfix::FlowSetBody::Data(d) => d.fields.len(),
                                _ => 0,
                            })
                            .sum(),
                        _ => 0,
                    };
                    if common.flowsets.len() == nfields && nfields > flows.len() {
                        o.hit("ipfix:common:flow-per-field");
                        off += len;
                        concat.extend(common.flowsets);
                        continue;
                    }
                }
                return Outcome::violation(at(format!(
                    "{} data records in the V{} packet, {} common flows reported",
                    flows.len(),
                    v,
                    common.flowsets.len()
                )));
            }
            let proto = if v == 9 { "v9" } else if v == 10 { "ipfix" } else { "fixed" };
            for (k, (e, g)) in flows.iter().zip(common.flowsets.iter()).enumerate() {
                if let Err(m) = cmp_flow(&mut o, proto, k, e, g) {
                    return Outcome::violation(at(m));
                }
            }
            concat.extend(common.flowsets);
            off += len;
        }
        // flattening helper = in-order concatenation
        let a: Vec<String> = flat.iter().map(|f| format!("{:?}", f)).collect();
        let b: Vec<String> = concat.iter().map(|f| format!("{:?}", f)).collect();
        if a != b {
            return Outcome::violation(format!(
                "call {}: parse_bytes_as_netflow_common_flowsets returns {} flows, the per-packet conversions concatenate to {}{}",
                ci,
                a.len(),
                b.len(),
                if a.len() == b.len() { " (content/order differs)" } else { "" }
            ));
        }
    }
    for (ci, el, first) in &kept {
        if &format!("{:?}", el.as_netflow_common().map_err(|_| "error")) != first {
            return Outcome::violation(format!("call {}: as_netflow_common gives a different view after later calls than right after its own call", ci));
        }
        o.label("common-view-repeated-after-later-calls");
    }
    o
}

// ---------------------------------------------------------------------------------------
// generator: templates made of projected elements + unrelated fields
// ---------------------------------------------------------------------------------------

fn projected_def(v9: bool) -> BoxedStrategy<Def> {
    // (ie, len) per member; address members choose the v4 or the v6 variant
    let members = (
        // any subset of the nine projected members; one template in four carries all of them
        prop_oneof![
            3 => proptest::sample::subsequence(vec![0usize, 1, 2, 3, 4, 5, 6, 7, 8], 0..=9),
            1 => Just(vec![0usize, 1, 2, 3, 4, 5, 6, 7, 8]),
        ],
        any::<bool>(),
        any::<bool>(),
        proptest::collection::vec((any::<u8>(), any::<u8>(), any::<u8>(), any::<u8>()), 0..=4),
        any::<u64>(),
    );
    members.prop_map(move |(sel, s6, d6, extra, order)| make_projected(v9, sel, s6, d6, extra, order)).boxed()
}

/// template over a subset of the projected elements plus unrelated fields (shared by the
/// proptest strategy and the fuzz target)
pub fn make_projected(v9: bool, sel: Vec<usize>, s6: bool, d6: bool, extra: Vec<(u8, u8, u8, u8)>, order: u64) -> Def {
    {
        {
            let mut fields: Vec<FieldSpec> = vec![];
            for m in sel {
                // one template in eight carries both variants of an address
                if m == 0 && order >> 48 & 7 == 0 {
                    fields.push(FieldSpec { ie: if s6 { 8 } else { 27 }, len: if s6 { 4 } else { 16 }, ent: None });
                }
                if m == 1 && order >> 51 & 7 == 0 {
                    fields.push(FieldSpec { ie: if d6 { 12 } else { 28 }, len: if d6 { 4 } else { 16 }, ent: None });
                }
                let (ie, len) = match m {
                    0 => {
                        if s6 {
                            (27, 16)
                        } else {
                            (8, 4)
                        }
                    }
                    1 => {
                        if d6 {
                            (28, 16)
                        } else {
                            (12, 4)
                        }
                    }
                    // IPFIX: ports and sysUpTime sometimes in a reduced size (RFC 7011 6.2)
                    2 => (7, if !v9 && order >> 60 & 3 == 1 { 1 } else { 2 }),
                    3 => (11, if !v9 && order >> 62 & 3 == 1 { 1 } else { 2 }),
                    4 => (4, 1),
                    5 => (22, if v9 { 4 } else { [4u16, 4, 4, 4, 4, 1, 2, 3][(order >> 54 & 7) as usize] }),
                    6 => (21, if v9 { 4 } else { [4u16, 4, 4, 4, 4, 1, 2, 3][(order >> 57 & 7) as usize] }),
                    7 => (56, 6),
                    _ => (80, 6),
                };
                fields.push(FieldSpec { ie, len, ent: None });
            }
            for (a, b, c, d) in extra {
                let pool: &[(u16, u16)] = if v9 {
                    &[(1, 4), (2, 8), (10, 2), (5, 1), (6, 1), (15, 4), (1000, 3), (94, 7), (23, 16), (57, 6), (81, 6), (62, 16), (153, 8), (61, 1), (61, 1), (60, 1), (57, 6), (81, 6)]
                } else {
                    &[(1, 4), (2, 8), (10, 2), (5, 1), (6, 1), (15, 4), (1000, 3), (82, 7), (23, 16), (57, 6), (81, 6), (62, 16), (153, 8), (82, 65535), (61, 1), (61, 1), (60, 1), (136, 1), (57, 6), (81, 6)]
                };
                if !v9 && b >= 200 {
                    // enterprise-specific element; sometimes numbered like a projected one
                    // (it must not be projected) and sometimes variable-length
                    let ie = if c < 128 { [8u16, 12, 7, 4, 56, 22][(c as usize * 6) >> 7] } else { 1 + ((c as u16) << 4 | (d as u16 & 15)) };
                    let len = match d % 4 {
                        0 => 65535,
                        1 => 4,
                        2 => 1,
                        _ => 6,
                    };
                    fields.push(FieldSpec { ie, len, ent: Some([9u32, 29305, 1, 0xffff_ffff][(a as usize) >> 6]) });
                    continue;
                }
                if b % 4 == 1 {
                    // any element of the library's table, in a legal width (never a second
                    // copy of a projected element: which copy the view should show is not
                    // specified)
                    let f = if v9 { gen::v9_field_pub(c, d, a) } else { gen::ipfix_field_pub(c.min(194), d, a, c) };
                    if f.ent.is_none() && f.len != VARLEN && f.len > 0 && ![8u16, 27, 12, 28, 7, 11, 4, 22, 21, 56, 80].contains(&f.ie) {
                        fields.push(f);
                        continue;
                    }
                }
                let (ie, len) = pool[(a as usize * pool.len()) >> 8];
                fields.push(FieldSpec { ie, len, ent: None });
            }
            if fields.is_empty() {
                fields.push(FieldSpec { ie: 1, len: 4, ent: None });
            }
            // deterministic shuffle driven by `order`
            let mut x = order | 1;
            for i in (1..fields.len()).rev() {
                x ^= x << 13;
                x ^= x >> 7;
                x ^= x << 17;
                fields.swap(i, (x % (i as u64 + 1)) as usize);
            }
            Def { kind: Kind::Plain, scope_n: 0, fields }
        }
    }
}

fn c13_pool() -> BoxedStrategy<gen::Pool> {
    let per = |v9: bool| {
        proptest::collection::vec(
            prop_oneof![
                5 => proptest::collection::vec(projected_def(v9), 1..=2),
                1 => proptest::collection::vec(if v9 { gen::v9_def(true, 4) } else { gen::ipfix_def(true, 4) }, 1..=1),
            ],
            4..=4,
        )
    };
    (proptest::sample::subsequence(vec![256u16, 257, 300, 1024, 65535], 2..=4), per(true), per(false))
        .prop_map(|(ids, mut v9, mut ipfix)| {
            v9.truncate(ids.len());
            ipfix.truncate(ids.len());
            gen::Pool { ids, v9, ipfix }
        })
        .boxed()
}

pub fn c13_case(max_recs: usize) -> BoxedStrategy<Case> {
    let mix = Mix { fixed: 2, v9: 4, ipfix: 4 };
    let call = proptest::collection::vec(gen::pkt_plan(mix, 4, max_recs), 1..=3);
    (c13_pool(), proptest::collection::vec(call, 1..=3), proptest::option::weighted(0.25, any::<u16>()))
        .prop_map(|(pool, calls, trunc)| {
            let plan = gen::StreamPlan { pool, calls };
            let b = gen::build(&plan, &BuildOpts { count_by_flowsets: true, ..BuildOpts::STRICT });
            let mut calls: Vec<Call> = b.calls;
            if let Some(t) = trunc {
                // append a truncated copy of a V5 packet: an Error element at the end
                let pk = enc_fixed(5, 2, &[1; 20], &[vec![2u8; 48], vec![3u8; 48]]);
                let cut = 1 + ((t as usize * (pk.len() - 2)) >> 16);
                calls.last_mut().unwrap().packets.push(pk[..cut].to_vec());
            }
            Case { calls, ..Case::single(vec![]) }
        })
        .boxed()
}

pub fn run(ctx: &Ctx) {
    ctx.replay_findings(&oracle);
    ctx.search("projected-templates", ctx.n(300_000, 25_000_000), &|| c13_case(6), &oracle);
    ctx.search("more-records", ctx.n(12_000, 1_000_000), &|| c13_case(20), &oracle);
}
