//! C06 - template cache: latest definition wins, persists, scoped to parser and protocol.
//!
//! Stateful: a case is an operation sequence over two parser instances with independent
//! allowed sets; the oracle interprets it against the real parsers and a per-parser cache
//! model side by side, then re-executes each parser's packet stream under other
//! partitions into calls, and on a fresh third parser.

use super::conf::{cache_diff, cmp_ipfix, cmp_v9, Flow};
use super::PropDef;
use crate::engine::{Call, Case, Ctx, Outcome};
use crate::gen::{self, BuildOpts, Mix};
use crate::obs;
use crate::refdec::{dec_fixed, dec_ipfix, dec_v9, RefBody};
use crate::wire::*;
use netflow_parser::{NetflowPacket, NetflowParser};
use proptest::prelude::*;

pub const DEF: PropDef = PropDef {
    id: "C06",
    run,
    oracle,
    rule: "cases = operation sequences Feed(parser in {A,B}, buffer of 1..3 packets) over two parser instances with independently generated allowed sets; packets come from one conformant plan over a small id pool shared by V9 and IPFIX (so an id regularly exists in both protocols and in both parsers with different meanings): template definitions, redefinitions with different field lists, changes of kind (template <-> options template), data, options data, V5/V7 packets, data for ids only the other parser knows, plus inserted truncated template packets (cut inside a template record or a flowset header), packets of versions the target parser disallows, unknown-version garbage, and IPFIX template-withdrawal messages (a template record with field count 0 for an id of the pool; the library does not implement withdrawal, the caches must stay as they are). Oracle: (1) after every call the public cache maps of each parser, normalised to {(protocol, kind, id) -> field list}, equal the model (latest wins, never evicts, unchanged by V5/V7, data, disallowed versions, truncated input); (2) every decodable data flowset equals the reference decode under the model's current template; (3) for each parser, every partition of its packet stream into calls (all 2^(m-1) for m <= 7 units, 48 sampled beyond; a packet that is not self-delimiting for that parser ends its call) yields identical concatenated results and final caches; (4) a fresh parser fed only B's stream ends in exactly B's state and results. Extra phase: 7..65280 (= every usable id) distinct template ids (dense runs, runs spread over the whole id space with strides 7..4099, ids that agree in their low 8..13 bits) defined over several calls, then data for ids from the whole range - nothing is evicted, no id collides with another. Extra phase: a template followed by 300..140,000 calls that do not mention it, then data for it (no expiry). Excluded shape: an IPFIX set after a set with an unknown template in the same message (C05/C07). non-trivial = a redefinition with a different field list followed by data for that id, and one of: the id is live in both protocols, the two parsers' caches diverge, a truncated template packet, a disallowed-version template packet, >= 3 partitions compared; distinct by digest.",
    assumptions: &["what a truncated V9 packet may still teach the cache: the complete template records of the complete flowsets in front of the cut (C14 states the same)"],
};

/// how one atom of a call was handled
#[derive(Clone, Copy, PartialEq, Debug)]
enum Unit {
    /// decoded completely; a following atom in the same buffer is parsed normally
    Delimited,
    /// ends the buffer (error element, disallowed or unknown version): everything after it
    /// in the same call is swallowed
    Terminal,
}

struct Walk {
    /// per atom of this call
    units: Vec<Unit>,
}

/// offset after the last complete V9 flowset (walking length fields, at most `count`)
fn v9_complete_prefix(buf: &[u8]) -> (usize, usize) {
    let count = be16(buf, 2) as usize;
    let mut p = 20;
    let mut n = 0;
    while n < count && p + 4 <= buf.len() {
        let l = (be16(buf, p + 2) as usize).max(4);
        if p + l > buf.len() {
            break;
        }
        p += l;
        n += 1;
    }
    (p, n)
}

/// Teach the model what a V9 packet that fails at some flowset still teaches the
/// library: the template records of the complete, decodable flowsets in front of the
/// failing one.
fn learn_v9_prefix(a: &[u8], model: &mut Cache) -> Result<bool, String> {
    let (mut end, _) = v9_complete_prefix(a);
    for _ in 0..3 {
        if end <= 20 {
            return Ok(true);
        }
        let mut pre = a[..end].to_vec();
        let mut n = 0u16;
        let mut p = 20;
        while p + 4 <= pre.len() {
            p += (be16(&pre, p + 2) as usize).max(4);
            n += 1;
        }
        pre[2..4].copy_from_slice(&n.to_be_bytes());
        let mut trial = model.clone();
        // not conformant under this parser's templates (data built for a definition only the
        // other parser received): no prediction possible
        let Ok(r) = dec_v9(&pre, &mut trial) else { return Ok(false) };
        match r.sets.iter().find(|s| matches!(s.body, RefBody::UnknownTemplate)) {
            Some(s) => end = s.off,
            None => {
                *model = trial;
                return Ok(true);
            }
        }
    }
    Err("HARNESS: learn_v9_prefix did not converge".into())
}

#[derive(Default)]
struct Feat {
    redefined_then_data: bool,
    truncated_tpl: bool,
    disallowed_tpl: bool,
    excluded: bool,
}

/// Walk one call: compare results with the reference, update the model.
fn walk_call(
    o: &mut Outcome,
    feat: &mut Feat,
    redefined: &mut std::collections::BTreeSet<(Proto, u16)>,
    atoms: &[Vec<u8>],
    allowed: &[u16],
    model: &mut Cache,
    res: &[NetflowPacket],
) -> Result<Walk, String> {
    let mut units = vec![];
    let mut i = 0usize; // element index
    let mut terminal = false;
    for (ai, a) in atoms.iter().enumerate() {
        if terminal {
            units.push(Unit::Terminal);
            continue;
        }
        if a.len() < 2 {
            return Err("HARNESS: atom shorter than 2 bytes".into());
        }
        let v = be16(a, 0);
        let at = |m: String| format!("atom {} (version {}): {}", ai, v, m);
        if !allowed.contains(&v) {
            // silently stops here; nothing of it may be reported or learned
            if matches!(v, 9 | 10) {
                let mut scratch = model.clone();
                let learns = match v {
                    9 => dec_v9(a, &mut scratch).map(|r| r.sets.iter().any(|s| matches!(s.body, RefBody::Templates { .. }))).unwrap_or(false),
                    _ => dec_ipfix(a, &mut scratch).map(|r| r.sets.iter().any(|s| matches!(s.body, RefBody::Templates { .. }))).unwrap_or(false),
                };
                if learns {
                    feat.disallowed_tpl = true;
                    o.label("disallowed-version-template-packet");
                }
            }
            terminal = true;
            units.push(Unit::Terminal);
            continue;
        }
        match v {
            5 | 7 => match dec_fixed(a) {
                Some(_) => {
                    if res.get(i).and_then(obs::version_of) != Some(v) {
                        return Err(at("complete V5/V7 packet not reported".into()));
                    }
                    i += 1;
                    units.push(Unit::Delimited);
                }
                None => {
                    if !matches!(res.get(i), Some(NetflowPacket::Error(_))) {
                        return Err(at("truncated V5/V7 packet not reported as error".into()));
                    }
                    i += 1;
                    terminal = true;
                    units.push(Unit::Terminal);
                }
            },
            9 => {
                let mut trial = model.clone();
                match dec_v9(a, &mut trial) {
                    Ok(r) if r.len == a.len() && !r.has_unknown() => {
                        let Some(NetflowPacket::V9(lv)) = res.get(i) else {
                            return Err(at(format!("conformant V9 packet reported as {:?}", res.get(i).map(obs::version_of))));
                        };
                        note_redefs(feat, redefined, model, &r, o);
                        *model = trial;
                        match cmp_v9(o, lv, &r).map_err(at)? {
                            Flow::Continue => {}
                            Flow::Tainted => return Err("HARNESS: tainting finding in C06 stream".into()),
                        }
                        i += 1;
                        // self-delimiting only if count == number of flowsets
                        if r.header[0] as usize == r.sets.len() {
                            units.push(Unit::Delimited);
                        } else {
                            terminal = true;
                            units.push(Unit::Terminal);
                        }
                    }
                    other => {
                        // truncated, or data for a template this parser does not hold: the
                        // packet is an error; complete template flowsets before the failing
                        // flowset have been learned
                        if other.is_err() {
                            let (end, nsets) = v9_complete_prefix(a);
                            if end == a.len() || nsets == be16(a, 2) as usize {
                                // structurally complete, yet not decodable under the template
                                // *this* parser holds (the data was built for a definition
                                // only the other parser received): no conformant reading
                                feat.excluded = true;
                                return Ok(Walk { units });
                            }
                            feat.truncated_tpl = true;
                            o.label("truncated-v9-packet");
                        } else {
                            o.label("v9-data-for-template-unknown-to-this-parser");
                        }
                        if !learn_v9_prefix(a, model)? {
                            feat.excluded = true;
                            return Ok(Walk { units });
                        }
                        if !matches!(res.get(i), Some(NetflowPacket::Error(_))) {
                            return Err(at("V9 packet that cannot be decoded completely is not reported as error".into()));
                        }
                        i += 1;
                        terminal = true;
                        units.push(Unit::Terminal);
                    }
                }
            }
            10 if is_withdrawal_message(a) => {
                // RFC 7011 8.1 template withdrawal (a template record with field count 0): the
                // library does not implement withdrawal and the property says templates are
                // never evicted - whatever it reports for the message (one element), the
                // caches stay as they are (the model is not touched)
                o.label("ipfix-template-withdrawal-record");
                if i >= res.len() {
                    return Err(at("nothing reported for an IPFIX message holding a zero-field template record".into()));
                }
                i += 1;
                terminal = true;
                units.push(Unit::Terminal);
            }
            10 => {
                let mut trial = model.clone();
                match dec_ipfix(a, &mut trial) {
                    Ok(r) if r.len == a.len() => {
                        if let Some(k) = r.sets.iter().position(|s| matches!(s.body, RefBody::UnknownTemplate)) {
                            if k + 1 < r.sets.len() {
                                feat.excluded = true;
                                return Ok(Walk { units });
                            }
                            o.label("ipfix-data-for-template-unknown-to-this-parser");
                        }
                        let Some(NetflowPacket::IPFix(lm)) = res.get(i) else {
                            return Err(at(format!("conformant IPFIX message reported as {:?}", res.get(i).map(obs::version_of))));
                        };
                        note_redefs(feat, redefined, model, &r, o);
                        *model = trial;
                        match cmp_ipfix(o, lm, &r, a).map_err(at)? {
                            Flow::Continue => {}
                            Flow::Tainted => return Err("HARNESS: tainting finding in C06 stream".into()),
                        }
                        i += 1;
                        units.push(Unit::Delimited);
                    }
                    _ => {
                        if (be16(a, 2) as usize) <= a.len() {
                            // complete message that is not conformant under this parser's
                            // templates (built for a definition the other parser received)
                            feat.excluded = true;
                            return Ok(Walk { units });
                        }
                        // truncated message: error, nothing learned
                        feat.truncated_tpl = true;
                        o.label("truncated-ipfix-message");
                        if !matches!(res.get(i), Some(NetflowPacket::Error(_))) {
                            return Err(at("truncated IPFIX message not reported as error".into()));
                        }
                        i += 1;
                        terminal = true;
                        units.push(Unit::Terminal);
                    }
                }
            }
            _ => {
                // allowed but unsupported version: error, nothing learned
                if !matches!(res.get(i), Some(NetflowPacket::Error(_))) {
                    return Err(at("unsupported version not reported as error".into()));
                }
                o.label("unknown-version-garbage");
                i += 1;
                terminal = true;
                units.push(Unit::Terminal);
            }
        }
    }
    if i != res.len() {
        return Err(format!("{} elements expected, {} reported", i, res.len()));
    }
    Ok(Walk { units })
}

fn note_redefs(
    feat: &mut Feat,
    redefined: &mut std::collections::BTreeSet<(Proto, u16)>,
    model: &Cache,
    r: &crate::refdec::RefPkt,
    o: &mut Outcome,
) {
    let mut local = model.clone();
    for s in &r.sets {
        match &s.body {
            RefBody::Templates { tpls, .. } => {
                for (id, d) in tpls {
                    if let Some(old) = local.map(r.proto).get(id) {
                        if old != d {
                            redefined.insert((r.proto, *id));
                            o.label("redefinition");
                            if old.kind != d.kind {
                                o.label("change-of-kind");
                            }
                        }
                    }
                    local.map_mut(r.proto).insert(*id, d.clone());
                }
            }
            RefBody::Data { .. } => {
                if redefined.contains(&(r.proto, s.id)) {
                    feat.redefined_then_data = true;
                    o.label("data-after-redefinition");
                }
            }
            _ => {}
        }
    }
}

/// fuse atoms into units that must stay in one call: a terminal atom and everything
/// swallowed after it
fn fuse(atoms: &[Vec<u8>], units: &[Unit]) -> Vec<(Vec<u8>, bool)> {
    let mut out: Vec<(Vec<u8>, bool)> = vec![];
    let mut open_terminal = false;
    for (a, u) in atoms.iter().zip(units.iter()) {
        if open_terminal {
            out.last_mut().unwrap().0.extend_from_slice(a);
        } else {
            out.push((a.clone(), *u == Unit::Terminal));
            if *u == Unit::Terminal {
                open_terminal = true;
            }
        }
    }
    out
}

fn run_units(allowed: &[u16], units: &[(Vec<u8>, bool)], cuts: u64) -> (Vec<String>, String) {
    let mut p = obs::new_parser(allowed);
    let mut out = vec![];
    let mut buf: Vec<u8> = vec![];
    for (i, (bytes, terminal)) in units.iter().enumerate() {
        buf.extend_from_slice(bytes);
        let last = i + 1 == units.len();
        if last || *terminal || (cuts >> (i % 64)) & 1 == 1 {
            for el in p.parse_bytes(&buf) {
                out.push(obs::render(&el));
            }
            buf.clear();
        }
    }
    (out, obs::cache_fingerprint(&p))
}

pub fn oracle(case: &Case) -> Outcome {
    let mut o = Outcome::pass();
    let n = case.n_parsers();
    let mut parsers: Vec<NetflowParser> = (0..n).map(|i| obs::new_parser(&case.allowed_of(i))).collect();
    let mut models: Vec<Cache> = vec![Cache::default(); n];
    let mut redefined = vec![std::collections::BTreeSet::new(); n];
    let mut feat = Feat::default();
    // per parser: the fused units of its stream, and the results of the base run
    let mut streams: Vec<Vec<(Vec<u8>, bool)>> = vec![vec![]; n];
    let mut base_results: Vec<Vec<String>> = vec![vec![]; n];
    for (ci, c) in case.calls.iter().enumerate() {
        let buf = c.buf();
        let res = parsers[c.parser].parse_bytes(&buf);
        let allowed = case.allowed_of(c.parser);
        let w = match walk_call(&mut o, &mut feat, &mut redefined[c.parser], &c.packets, &allowed, &mut models[c.parser], &res) {
            Ok(w) => w,
            Err(m) if m.contains("HARNESS:") => return Outcome::harness(format!("call {}: {}", ci, m)),
            Err(m) => return Outcome::violation(format!("call {} (parser {}): {}", ci, c.parser, m)),
        };
        if feat.excluded {
            let mut e = Outcome::pass();
            e.label("excluded:set-after-unknown-template-set-or-data-for-foreign-definition");
            return e;
        }
        // (1) model equivalence after every step, for every parser (isolation: the other
        // parser must not have moved)
        for pi in 0..n {
            if let Some(d) = cache_diff(&parsers[pi], &models[pi]) {
                return Outcome::violation(format!("after call {} (fed to parser {}), parser {}: {}", ci, c.parser, pi, d));
            }
        }
        let mut fused = fuse(&c.packets, &w.units);
        // the base run cut here: the last unit of a call ends a call in the base partition
        if let Some(l) = fused.last_mut() {
            let _ = l;
        }
        let start = streams[c.parser].len();
        streams[c.parser].extend(fused);
        let _ = start;
        base_results[c.parser].extend(res.iter().map(obs::render));
    }
    // (3) partition independence per parser
    let mut max_parts = 0usize;
    for pi in 0..n {
        let units = &streams[pi];
        let m = units.len();
        if m == 0 {
            continue;
        }
        let allowed = case.allowed_of(pi);
        let base_cache = obs::cache_fingerprint(&parsers[pi]);
        let parts: Vec<u64> = if m <= 7 {
            (0..(1u64 << (m - 1))).collect()
        } else {
            let mut v = vec![0u64, u64::MAX];
            let mut x: u64 = 0x2545F4914F6CDD1D ^ case.digest() ^ pi as u64;
            for _ in 0..46 {
                x ^= x << 13;
                x ^= x >> 7;
                x ^= x << 17;
                v.push(x);
            }
            v
        };
        max_parts = max_parts.max(parts.len());
        for cuts in &parts {
            let (res, cache) = run_units(&allowed, units, *cuts);
            if res != base_results[pi] {
                let k = res.iter().zip(base_results[pi].iter()).position(|(a, b)| a != b).unwrap_or(res.len().min(base_results[pi].len()));
                return Outcome::violation(format!(
                    "parser {}: splitting its stream of {} units into calls by pattern {:#b} changes the results ({} vs {} elements, first difference at {})",
                    pi,
                    m,
                    cuts,
                    res.len(),
                    base_results[pi].len(),
                    k
                ));
            }
            if cache != base_cache {
                return Outcome::violation(format!("parser {}: splitting its stream by pattern {:#b} changes the final cache", pi, cuts));
            }
        }
    }
    // (4) isolation: a fresh parser fed only parser 1's stream (or 0's when there is one parser)
    for pi in 0..n {
        let mut fresh = obs::new_parser(&case.allowed_of(pi));
        let mut out = vec![];
        for c in case.calls.iter().filter(|c| c.parser == pi) {
            out.extend(fresh.parse_bytes(&c.buf()).iter().map(obs::render));
        }
        if out != base_results[pi] || obs::cache_fingerprint(&fresh) != obs::cache_fingerprint(&parsers[pi]) {
            return Outcome::violation(format!(
                "parser {} interleaved with other parsers behaves differently from a fresh parser fed only its own stream",
                pi
            ));
        }
    }
    // how many records an options data flowset yields is C04's subject (finding D6 is listed
    // there); for C06 it matters only that the first record was cut by the right template
    o.known.retain(|k| k != super::conf::SIG_V9_OPTDATA);
    // non-triviality
    let both_protocols = models.iter().any(|m| m.v9.keys().any(|k| m.ipfix.contains_key(k)));
    let nonempty = |m: &Cache| !m.v9.is_empty() || !m.ipfix.is_empty();
    let diverging = n >= 2 && models[0] != models[1] && nonempty(&models[0]) && nonempty(&models[1]);
    if both_protocols {
        o.label("id-live-in-both-protocols");
    }
    if diverging {
        o.label("two-parsers-diverging-caches");
    }
    if max_parts >= 3 {
        o.label("partitions>=3");
    }
    o.nontrivial = feat.redefined_then_data && (both_protocols || diverging || feat.truncated_tpl || feat.disallowed_tpl || max_parts >= 3);
    o
}

/// an IPFIX message that is exactly one template (or options template) set holding one record
/// {id, field count 0}
fn is_withdrawal_message(a: &[u8]) -> bool {
    a.len() == 24 && be16(a, 0) == 10 && be16(a, 2) == 24 && matches!(be16(a, 16), 2 | 3) && be16(a, 18) == 8 && be16(a, 22) == 0
}

fn garbage_version() -> BoxedStrategy<u16> {
    prop_oneof![Just(0u16), Just(1), Just(8), Just(11), Just(0x0900), Just(0xffff)].boxed()
}

#[derive(Clone, Debug)]
enum Insert {
    /// cut a copy of the (scaled) template-bearing atom at a (scaled) position and feed it
    Truncated(u8, u16),
    Garbage(u16, Vec<u8>),
    /// an IPFIX template withdrawal for a (scaled) id of the pool, or for all ids (id 2 / 3)
    Withdrawal(u8, bool),
}

pub fn c06_case(max_calls: usize) -> BoxedStrategy<Case> {
    let mix = Mix { fixed: 1, v9: 5, ipfix: 5 };
    let call = (any::<bool>(), proptest::collection::vec(gen::pkt_plan(mix, 3, 3), 1..=3));
    let ins = prop_oneof![
        3 => (any::<u8>(), any::<u16>()).prop_map(|(a, p)| Insert::Truncated(a, p)),
        1 => (garbage_version(), proptest::collection::vec(any::<u8>(), 0..20)).prop_map(|(v, j)| Insert::Garbage(v, j)),
        1 => (any::<u8>(), any::<bool>()).prop_map(|(i, o)| Insert::Withdrawal(i, o)),
    ];
    (
        gen::pool(2..=3, 5, true),
        proptest::collection::vec(call, 2..=max_calls),
        proptest::collection::vec((any::<u8>(), ins), 0..3),
        gen::allowed_set(),
        gen::allowed_set(),
        any::<u8>(),
    )
        .prop_map(|(pool, calls, inserts, a0, a1, by_records)| {
            let pool_ids = pool.ids.clone();
            let parsers: Vec<usize> = calls.iter().map(|(b, _)| *b as usize).collect();
            let plan = gen::StreamPlan { pool, calls: calls.into_iter().map(|(_, p)| p).collect() };
            let opts = BuildOpts { count_by_flowsets: by_records % 4 != 0, ..BuildOpts::STRICT };
            let b = gen::build(&plan, &opts);
            let mut out: Vec<Call> = b
                .calls
                .into_iter()
                .zip(parsers.iter())
                .map(|(c, p)| Call { parser: *p, packets: c.packets })
                .collect();
            let mut used = std::collections::BTreeSet::new();
            for (pos, ins) in inserts {
                let ci = (pos as usize * out.len()) >> 8;
                if !used.insert(ci) {
                    continue;
                }
                match ins {
                    Insert::Garbage(v, j) => {
                        let mut a = v.to_be_bytes().to_vec();
                        a.extend(j);
                        out[ci].packets.push(a);
                    }
                    Insert::Withdrawal(sel, options) => {
                        let id = match sel % 5 {
                            0 => if options { 3 } else { 2 }, // "withdraw all"
                            _ => pool_ids[(sel as usize * pool_ids.len()) >> 8],
                        };
                        let mut w = W::default();
                        enc_ipfix_header(&mut w, 24, &[5, 6, 7]);
                        w.u16(if options { 3 } else { 2 }).u16(8).u16(id).u16(0);
                        out[ci].packets.push(w.0);
                    }
                    Insert::Truncated(ai, p) => {
                        // pick a V9/IPFIX atom of this call, append a truncated copy as the last atom
                        let cands: Vec<&Vec<u8>> = out[ci].packets.iter().filter(|a| a.len() > 24 && matches!(be16(a, 0), 9 | 10)).collect();
                        if cands.is_empty() {
                            continue;
                        }
                        let src = cands[(ai as usize * cands.len()) >> 8].clone();
                        let lo = if be16(&src, 0) == 9 { 21 } else { 17 };
                        let cut = lo + ((p as usize * (src.len() - lo - 1)) >> 16);
                        let mut t = src[..cut].to_vec();
                        if be16(&t, 0) == 9 {
                            // a cut exactly on a flowset boundary is a shorter valid packet, not a truncation
                            let (end, _) = v9_complete_prefix(&t);
                            if end == t.len() {
                                t.pop();
                            }
                            if t.len() <= 20 {
                                continue;
                            }
                        }
                        out[ci].packets.push(t);
                    }
                }
            }
            if !opts.count_by_flowsets {
                // a V9 packet whose count exceeds its flowsets is not self-delimiting:
                // deliver one packet per call (as UDP does)
                out = out
                    .into_iter()
                    .flat_map(|c| c.packets.into_iter().map(move |p| Call { parser: c.parser, packets: vec![p] }))
                    .collect();
            }
            Case { allowed: vec![a0, a1], calls: out, params: Default::default() }
        })
        .boxed()
}

/// many distinct template ids (7 .. 65280 = all of them) defined over several calls, then data for ids from
/// the whole range: "templates are never evicted", and no id collides with another
pub fn many_ids_case() -> BoxedStrategy<Case> {
    (
        // (number of ids, stride between consecutive ids modulo the 65,280 usable ids): dense
        // runs, runs spread over the whole id space, thousands of ids, and ids that agree in
        // their low 8..12 bits
        prop_oneof![
            12 => prop_oneof![
                Just((70usize, 1usize)), Just((130, 1)), Just((260, 1)), Just((520, 1)), Just((1100, 1)),
                Just((1100, 7)), Just((520, 257)), Just((1100, 4099)),
                Just((254, 256)), Just((63, 1024)), Just((31, 2048)), Just((15, 4096)), Just((7, 8192)),
            ],
            3 => prop_oneof![Just((3000usize, 2053usize)), Just((5000, 1)), Just((9000, 7))],
            1 => prop_oneof![Just((20000usize, 7usize)), Just((65280, 1))],
        ],
        any::<bool>(),
        proptest::collection::vec((any::<u16>(), any::<u8>()), 4..=12),
        1usize..=40,
    )
        .prop_map(|((n, stride), v9, probes, per_packet)| {
            let proto = if v9 { Proto::V9 } else { Proto::Ipfix };
            let per_packet = if n > 1100 { 1000 + per_packet * 25 } else { per_packet };
            // (every usable id 256..=65535 when n = 65280)
            let id_of = move |j: usize| (256 + (j * stride) % 65280) as u16;
            // definition of id 256+i: two fields whose widths depend on i, so that decoding with a
            // neighbour's template is visible
            let def_of = |i: usize| Def {
                kind: Kind::Plain,
                scope_n: 0,
                fields: vec![
                    FieldSpec { ie: 1, len: [1u16, 2, 4, 8][i % 4], ent: None },
                    FieldSpec { ie: 2, len: [4u16, 2, 8, 1][(i / 4) % 4], ent: None },
                ],
            };
            let pkt = |body: &[u8], nsets: usize| -> Vec<u8> {
                let mut w = W::default();
                match proto {
                    Proto::V9 => enc_v9_header(&mut w, nsets as u16, &[1, 2, 3, 4]),
                    Proto::Ipfix => enc_ipfix_header(&mut w, (16 + body.len()) as u16, &[1, 2, 3]),
                }
                w.bytes(body);
                w.0
            };
            let mut calls: Vec<Call> = vec![];
            let mut i = 0usize;
            while i < n {
                let k = per_packet.min(n - i);
                let mut body = W::default();
                let mut nsets = 0;
                match proto {
                    Proto::V9 => {
                        let mut recs = W::default();
                        for j in i..i + k {
                            enc_template_record(&mut recs, proto, id_of(j), &def_of(j));
                        }
                        enc_set(&mut body, 0, &recs.0, 0);
                        nsets = 1;
                    }
                    Proto::Ipfix => {
                        for j in i..i + k {
                            let mut rec = W::default();
                            enc_template_record(&mut rec, proto, id_of(j), &def_of(j));
                            enc_set(&mut body, 2, &rec.0, 0);
                            nsets += 1;
                        }
                    }
                }
                calls.push(Call { parser: 0, packets: vec![pkt(&body.0, nsets)] });
                i += k;
            }
            // data for ids spread over the whole range (first, last, around powers of two, random)
            let mut ids: Vec<usize> = vec![0, n - 1, 1.min(n - 1), 63.min(n - 1), 64.min(n - 1), 127.min(n - 1), 128.min(n - 1), 255.min(n - 1), 256.min(n - 1), 511.min(n - 1), 512.min(n - 1), 1023.min(n - 1), 1024.min(n - 1), 2047.min(n - 1), 2048.min(n - 1), 4095.min(n - 1), 4096.min(n - 1), 8191.min(n - 1), 8192.min(n - 1), 16383.min(n - 1), 16384.min(n - 1), 32767.min(n - 1), 32768.min(n - 1)];
            ids.extend(probes.iter().map(|(x, _)| *x as usize % n));
            for (k, id) in ids.iter().enumerate() {
                let d = def_of(*id);
                let rl = d.min_record_len();
                let fill = probes[k % probes.len()].1;
                let recs: Vec<u8> = (0..2 * rl).map(|b| fill.wrapping_add(b as u8 + 1)).collect();
                let mut body = W::default();
                enc_set(&mut body, id_of(*id), &recs, 0);
                calls.push(Call { parser: 0, packets: vec![pkt(&body.0, 1)] });
            }
            Case { allowed: vec![crate::engine::DEFAULT_ALLOWED.to_vec()], calls, params: Default::default() }
        })
        .boxed()
}

/// A template, then a long stretch of traffic that does not mention it (300 .. 140,000 calls of
/// header-only and V5 packets, data for another id), then data for it: templates persist -
/// there is no expiry by number of calls or packets.
pub fn idle_case(n: usize, v9: bool, fill: u8) -> Case {
    {
        {
            let proto = if v9 { Proto::V9 } else { Proto::Ipfix };
            let pkt = |body: &[u8], nsets: usize| -> Vec<u8> {
                let mut w = W::default();
                match proto {
                    Proto::V9 => enc_v9_header(&mut w, nsets as u16, &[1, 2, 3, 4]),
                    Proto::Ipfix => enc_ipfix_header(&mut w, (16 + body.len()) as u16, &[1, 2, 3]),
                }
                w.bytes(body);
                w.0
            };
            let def = |ie: u16, len: u16| Def { kind: Kind::Plain, scope_n: 0, fields: vec![FieldSpec { ie, len, ent: None }, FieldSpec { ie: 2, len: 2, ent: None }] };
            let tset = |id: u16, d: &Def| {
                let mut r = W::default();
                enc_template_record(&mut r, proto, id, d);
                let mut s = W::default();
                enc_set(&mut s, template_set_id(proto, Kind::Plain), &r.0, 0);
                s.0
            };
            let dset = |id: u16, len: usize| {
                let mut s = W::default();
                enc_set(&mut s, id, &(0..len).map(|i| fill.wrapping_add(i as u8 + 1)).collect::<Vec<u8>>(), 0);
                s.0
            };
            let (da, db) = (def(1, 4), def(1, 8));
            let mut calls = vec![
                Call { parser: 0, packets: vec![pkt(&tset(256, &da), 1)] },
                Call { parser: 0, packets: vec![pkt(&tset(257, &db), 1)] },
                Call { parser: 0, packets: vec![pkt(&dset(256, 12), 1)] },
            ];
            for i in 0..n {
                let p = match (i + fill as usize) % 4 {
                    0 => enc_fixed(5, 0, &[0; 20], &[]),
                    1 => pkt(&[], 0),
                    2 => pkt(&dset(257, 10), 1),
                    _ => enc_fixed(7, 1, &[1; 20], &[vec![2u8; 52]]),
                };
                calls.push(Call { parser: 0, packets: vec![p] });
            }
            calls.push(Call { parser: 0, packets: vec![pkt(&dset(256, 12), 1)] });
            Case { allowed: vec![crate::engine::DEFAULT_ALLOWED.to_vec()], calls, params: Default::default() }
        }
    }
}

pub fn run(ctx: &Ctx) {
    ctx.replay_findings(&oracle);
    ctx.search("two-parsers-histories", ctx.n(120_000, 10_000_000), &|| c06_case(6), &oracle);
    ctx.search("many-template-ids-never-evicted", ctx.n(400, 8_000), &many_ids_case, &oracle);
    ctx.search("longer-histories", ctx.n(10_000, 1_000_000), &|| c06_case(14), &oracle);
    let mut idle = vec![];
    for n in [300usize, 1100, 5000, 70_000, 140_000] {
        for v9 in [true, false] {
            for fill in [0u8, 1, 2, 3] {
                if n >= 70_000 && fill >= 2 {
                    continue;
                }
                idle.push(idle_case(n, v9, fill));
            }
        }
    }
    ctx.enumerate("template-survives-long-idle-stretch", idle, false, &oracle);
}
