//! C15 - parsing cost is bounded by input size plus output size.
//!
//! Cost = bytes requested from the (counting) global allocator and number of allocator
//! calls on the calling thread during one `parse_bytes` call. Result size = bytes
//! requested by a deep clone of the result + len * size_of::<NetflowPacket>(). No wall clock.

use super::PropDef;
use crate::alloc;
use crate::engine::{Case, Ctx, Outcome};
use crate::gen::{self, BuildOpts, Mix, StreamCfg};
use crate::obs;
use crate::wire::*;
use netflow_parser::{NetflowPacket, NetflowParser};
use std::sync::atomic::{AtomicU64, Ordering};

pub const DEF: PropDef = PropDef {
    id: "C15",
    run,
    oracle,
    rule: "cases = (cache-preloading calls, measured call) from: F1 hostile headers over short bodies (every count/length field of every version set to 0xffff/0x7fff); F2 buffers packed with n minimal packets per version (also with all 65,536 version numbers in the public allowed set); F3 one packet with n minimal sets/flowsets (empty, one record) under small and 1000-field cached templates; F4 one set with n minimal records; F5 templates with n fields plus matching data; F6 templates with z zero-length fields x r records (z*r <= 2e5); F7 failing records (V9 retry loop); F1d chains of minimal messages whose data (variable-length prefix) or template (fixed width 65534; enterprise, string, octet-array and untyped elements) announces bytes the set does not hold; F9 decode-then-discard; F10 one packet whose n sets redefine (same kind / other kind) or carry data for n distinct ids of a cache that earlier calls filled with 6000 templates (cost must not depend on what is cached); F8 random hostile and conformant histories; sizes up to the 65,535-byte limit. Oracle per measured call: S1 alloc_bytes <= K0 + K1*|buf| + K2*result_size; S2 result_size <= K0 + K3*(|buf| + wire size of the cached templates); S3 (metamorphic, per family) cost(2n) <= 2.5*cost(n) + K0 for alloc_bytes, alloc_calls and result_size at successive doublings up to the limit. S5 (CPU work, counted as instructions executed inside the measured parse_bytes call by valgrind/callgrind on a helper binary - exact, no clock involved; per family at its maximal size n): instructions(n) <= 8 x instructions(n/4) + 3e6 (linear 4x, quadratic 16x); S7 (families F12: a header-only packet after a datagram of n header-only packets; families F11: the same small packet after n and after n/4 earlier calls - distinct unknown template ids, distinct source ids / observation domains, one template redefined over and over; n = 60,000): instructions(after n) <= 1.5 x instructions(after n/4) + 3000 (measured: identical counts), and S1 holds for every one of the n calls; S6 (families F10, a packet of 500 sets): instructions against the 6000-template cache <= 2 x instructions against a cache holding only the 500 ids used + 5e5. K0 = 128 KiB; K1, K2, K3 calibrated once (4x the maximum observed on the unchanged tree over the generated cases that avoid open findings; recorded in the source). A bound that fails only by what the open finding 'zero-length fields are materialised per record' explains (budget computed from the templates in effect and the set sizes) is forgiven with that signature; anything else is a violation. non-trivial = |buf| >= 1 KiB, or a header field announces >= 16x more records/bytes than present, or the case is an S3 doubling pair; distinct by digest.",
    assumptions: &[
        "memory cost is allocator traffic on the calling thread (deterministic); CPU cost is the instruction count of the measured call under callgrind (repeatable to within a few percent; skipped, and reported as skipped in the evidence, if valgrind is not installed); clocks are never an oracle",
        "constants K1..K3 are calibrated, not derived; the targeted defects exceed them by orders of magnitude",
    ],
};

pub const K0: u64 = 128 * 1024;
// Calibration on the unchanged tree (after fixes D20, D21, D25; seeds 0..2, 1.9e5 cases each,
// cases touching zero-length fields excluded):
//  * S2: max result/(buf+templates) observed = 661 - a one-byte record costs one B-tree leaf
//    of ~650 bytes (V9: one map per record, IPFIX: one map per field). K3 = 4 x 661 rounded.
//  * S1: max (alloc - K0 - K2*result)/buf observed = 44. The modelled worst case that is still
//    "a fixed multiple" is a V9 packet that decodes ~65 000 one-byte records and is then
//    discarded because a later flowset fails: the same ~660-720 bytes per input byte as the
//    result would have had, with an empty result (family F9 below exercises exactly this).
//    K1 = 2000 covers that model (measured 669-705 with family F9) with a 2.8x margin, so a
//    benign change that doubles the per-record footprint still passes; the first
//    calibration used K1 = 2700, which let a seeded 2540x amplification (64 KiB
//    pre-allocation per 26-byte IPFIX message, seeded/C15-a) pass - see DESIGN 9.5.
//  * K2: alloc/result is 2-4 for kept results (vector doubling, intermediate strings); 16 = 4x.
pub const K1: u64 = 2000;
pub const K2: u64 = 16;
pub const K3: u64 = 2700;

/// calibration runs only: NFV_K3=<n> overrides K3 (never set by registered commands)
fn k3() -> u64 {
    std::env::var("NFV_K3").ok().and_then(|s| s.parse().ok()).unwrap_or(K3)
}

pub static MAX_R1: AtomicU64 = AtomicU64::new(0);
pub static MAX_R2: AtomicU64 = AtomicU64::new(0);
pub static MAX_R3: AtomicU64 = AtomicU64::new(0);

#[derive(Debug, Clone, Copy, Default)]
pub struct Cost {
    pub bytes: u64,
    pub calls: u64,
    pub result: u64,
    pub buf: u64,
    pub tpl: u64,
}

fn template_heap(p: &NetflowParser) -> u64 {
    obs::lib_cache(p)
        .iter()
        .map(|((proto, _, _), d)| d.wire_size(*proto) as u64)
        .sum()
}

/// measure one parse_bytes call
pub fn measure(p: &mut NetflowParser, buf: &[u8]) -> (Cost, Vec<NetflowPacket>) {
    let tpl_before = template_heap(p);
    let a = alloc::snap();
    let res = p.parse_bytes(buf);
    let b = alloc::snap();
    let c0 = alloc::snap();
    let cl = res.clone();
    let c1 = alloc::snap();
    drop(cl);
    let result = (c1.bytes - c0.bytes) + (res.len() * std::mem::size_of::<NetflowPacket>()) as u64;
    (
        Cost {
            bytes: b.bytes - a.bytes,
            calls: b.calls - a.calls,
            result,
            buf: buf.len() as u64,
            tpl: tpl_before.max(template_heap(p)),
        },
        res,
    )
}

/// budget explained by the open finding "zero-length fields are materialised once per
/// record": for every data set in the buffer whose governing template has z > 0
/// zero-length fields, (records that fit) x (z + 1) x 512 bytes
fn zero_length_budget(before: &std::collections::BTreeMap<(Proto, Kind, u16), Def>, after: &std::collections::BTreeMap<(Proto, Kind, u16), Def>, buf: &[u8]) -> u64 {
    let mut budget = 0u64;
    let mut off = 0usize;
    while off + 4 <= buf.len() {
        let v = be16(buf, off);
        let (proto, hdr) = match v {
            9 => (Proto::V9, 20usize),
            10 => (Proto::Ipfix, 16usize),
            _ => break,
        };
        let end = if v == 10 { (off + (be16(buf, off + 2) as usize).max(16)).min(buf.len()) } else { buf.len() };
        let mut p = off + hdr;
        while p + 4 <= end {
            let id = be16(buf, p);
            let len = (be16(buf, p + 2) as usize).max(4);
            let body = len - 4;
            for cache in [before, after] {
                for kind in [Kind::Plain, Kind::Options] {
                    if let Some(d) = cache.get(&(proto, kind, id)) {
                        let z = d.fields.iter().filter(|f| f.len == 0).count() as u64;
                        if z > 0 {
                            let min = d.min_record_len().max(1) as u64;
                            budget += (body as u64 / min + 1) * (z + 1) * 512;
                        }
                    }
                }
            }
            p += len;
        }
        off = if v == 10 { end } else { buf.len() };
    }
    budget
}

pub fn check_bounds(o: &mut Outcome, what: &str, c: &Cost, zl: u64) -> Result<(), String> {
    let b1 = K0 + K1 * c.buf + K2 * c.result;
    let b2 = K0 + k3() * (c.buf + c.tpl);
    if c.buf > 0 && zl == 0 {
        let r1 = (c.bytes.saturating_sub(K0 + K2 * c.result)) / c.buf.max(1);
        MAX_R1.fetch_max(r1, Ordering::Relaxed);
        let r2 = (c.result.saturating_sub(K0)) / (c.buf + c.tpl).max(1);
        MAX_R2.fetch_max(r2, Ordering::Relaxed);
        if c.result >= 65536 {
            MAX_R3.fetch_max(c.bytes * 100 / c.result, Ordering::Relaxed);
            if std::env::var_os("NFV_C15_DEBUG").is_some() && c.bytes * 100 / c.result > 1500 {
                eprintln!("DEBUG ratio {} {}: {:?}", c.bytes * 100 / c.result, what, c);
            }
        }
    }
    if c.bytes > b1 {
        if zl > 0 && c.bytes <= b1 + K2 * zl {
            o.hit("zerolen:amplification");
        } else {
            return Err(format!(
                "{}: S1 violated: {} bytes allocated for a {}-byte buffer and a {}-byte result (bound {} = 128KiB + {}*buf + {}*result{})",
                what,
                c.bytes,
                c.buf,
                c.result,
                b1,
                K1,
                K2,
                if zl > 0 { format!("; zero-length-field budget {} does not explain it", K2 * zl) } else { String::new() }
            ));
        }
    }
    if c.result > b2 {
        if zl > 0 && c.result <= b2 + zl {
            o.hit("zerolen:amplification");
        } else {
            return Err(format!(
                "{}: S2 violated: result of {} bytes from a {}-byte buffer decoded with {} bytes of templates (bound {} = 128KiB + {}*(buf+templates){})",
                what,
                c.result,
                c.buf,
                c.tpl,
                b2,
                K3,
                if zl > 0 { format!("; zero-length-field budget {} does not explain it", zl) } else { String::new() }
            ));
        }
    }
    Ok(())
}

/// A case: all calls but those listed in params are cache-preloading; every call is
/// measured. With param `double` = 1 the case is a doubling pair: calls are
/// [preload..., small, preload..., large] split at param `split` (index of the first call
/// of the second half) and S3 relates the last call of each half.
pub static S5_PAIRS: AtomicU64 = AtomicU64::new(0);
pub static S5_MAX_RATIO_X100: AtomicU64 = AtomicU64::new(0);
pub static S6_MAX_RATIO_X100: AtomicU64 = AtomicU64::new(0);
pub static S5_SKIPPED: AtomicU64 = AtomicU64::new(0);
pub static S7_MAX_RATIO_X100: AtomicU64 = AtomicU64::new(0);

fn valgrind_available() -> bool {
    static V: std::sync::OnceLock<bool> = std::sync::OnceLock::new();
    *V.get_or_init(|| {
        std::process::Command::new("valgrind")
            .arg("--version")
            .stdout(std::process::Stdio::null())
            .stderr(std::process::Stdio::null())
            .status()
            .map(|s| s.success())
            .unwrap_or(false)
    })
}

/// instructions executed by the measured parse_bytes call (and the drop of its result) of a
/// family instance, counted by callgrind on the `cgarm` helper binary: exact and
/// repeatable, unlike any clock
fn instructions(name: &str, n: usize) -> Result<u64, String> {
    static SEQ: AtomicU64 = AtomicU64::new(0);
    let exe = std::env::current_exe().map_err(|e| e.to_string())?;
    let arm = exe.parent().ok_or("no parent dir")?.join("cgarm");
    if !arm.exists() {
        return Err(format!("{} not built", arm.display()));
    }
    let dir = crate::engine::out_dir("cg");
    let _ = std::fs::create_dir_all(&dir);
    let out = format!("{}/cg-{}-{}.out", dir, std::process::id(), SEQ.fetch_add(1, Ordering::Relaxed));
    let st = std::process::Command::new("valgrind")
        .args(["--tool=callgrind", "--toggle-collect=nfv_cg_measured", "--cache-sim=no", "--branch-sim=no", "-q"])
        .arg(format!("--callgrind-out-file={}", out))
        .arg(&arm)
        .arg(name)
        .arg(n.to_string())
        .stdout(std::process::Stdio::null())
        .stderr(std::process::Stdio::null())
        .status()
        .map_err(|e| e.to_string())?;
    let text = std::fs::read_to_string(&out).unwrap_or_default();
    let _ = std::fs::remove_file(&out);
    if !st.success() {
        return Err(format!("valgrind/cgarm exited with {:?}", st.code()));
    }
    text.lines()
        .find_map(|l| l.strip_prefix("summary:").or_else(|| l.strip_prefix("totals:")))
        .and_then(|v| v.trim().split_whitespace().next().and_then(|x| x.parse::<u64>().ok()))
        .ok_or_else(|| "no summary line in the callgrind output".to_string())
}

/// S5 / S6 (CPU work - the part of the statement the allocation counters cannot see). The
/// case names a family and a size n. S5: instructions(n) <= 8 x instructions(n/4) + 3e6
/// (linear: 4x, n log n: < 5x, quadratic: 16x). S6 (F10 families, a packet of 500 sets): instructions against a
/// cache of 6000 templates <= 2 x instructions against a cache holding only the 500 ids
/// the packet uses + 5e5 (hash maps are randomly seeded per process, so counts vary by some
/// ten percent between runs; a linear scan of the cache costs 7x).
fn oracle_cg(case: &Case) -> Outcome {
    let mut o = Outcome::pass();
    let Some((name, _u, _max)) = FAMILIES.get(case.param("family_index") as usize) else {
        return Outcome::harness("HARNESS: family index out of range");
    };
    let n = case.param("n") as usize;
    if !valgrind_available() {
        S5_SKIPPED.fetch_add(1, Ordering::Relaxed);
        o.label("S5-skipped:valgrind-not-available");
        return o;
    }
    // an instrumentation failure (valgrind present but unusable here) is not a verdict about
    // the library: the pair is skipped and counted as skipped in the evidence
    let run = |nm: &str, k: usize| {
        instructions(nm, k).map_err(|e| {
            S5_SKIPPED.fetch_add(1, Ordering::Relaxed);
            eprintln!("note: S5/S6 pair skipped, callgrind run of {} n={} failed: {}", nm, k, e);
            let mut s = Outcome::pass();
            s.label("S5-skipped:callgrind-run-failed");
            s
        })
    };
    let big = match run(name, n) {
        Ok(x) => x,
        Err(h) => return h,
    };
    let small = match run(name, n / 4) {
        Ok(x) => x,
        Err(h) => return h,
    };
    S5_PAIRS.fetch_add(1, Ordering::Relaxed);
    S5_MAX_RATIO_X100.fetch_max(big * 100 / small.max(1), Ordering::Relaxed);
    o.nontrivial = true;
    o.label("S5-instruction-count-pair");
    if std::env::var_os("NFV_C15_DEBUG").is_some() {
        eprintln!("DEBUG S5 {} n={}: {} -> {} instructions ({:.2}x)", name, n, small, big, big as f64 / small.max(1) as f64);
    }
    let zerolen = name.starts_with("F6");
    if big > 8 * small + 3_000_000 {
        if zerolen {
            o.hit("zerolen:amplification");
        } else {
            return Outcome::violation(format!(
                "S5 violated for family {}: {} -> {} input units, {} -> {} instructions in parse_bytes (more than 8x + 3e6 for 4x the input)",
                name,
                n / 4,
                n,
                small,
                big
            ));
        }
    }
    if name.starts_with("F11-") || name.starts_with("F12-") {
        // S7: the measured call comes after n resp. n/4 earlier calls and is the same packet
        S7_MAX_RATIO_X100.fetch_max(big * 100 / small.max(1), Ordering::Relaxed);
        o.label("S7-call-cost-vs-history-length");
        if big > small + small / 2 + 3_000 {
            return Outcome::violation(format!(
                "S7 violated for family {}: the same small packet costs {} instructions after {} earlier calls and {} after {}",
                name, small, n / 4, big, n
            ));
        }
    }
    if let Some(rest) = name.strip_prefix("F10-") {
        // the same 500-set packet against the cache of 6000 templates and against a cache
        // holding only the 500 ids it uses
        let twin = format!("F10s-{}", rest);
        let k = 500usize;
        let (large, base) = match (run(name, k), run(&twin, k)) {
            (Ok(a), Ok(b)) => (a, b),
            (Err(h), _) | (_, Err(h)) => return h,
        };
        S6_MAX_RATIO_X100.fetch_max(large * 100 / base.max(1), Ordering::Relaxed);
        o.label("S6-large-vs-small-cache");
        if std::env::var_os("NFV_C15_DEBUG").is_some() {
            eprintln!("DEBUG S6 {}: {} (cache 500) vs {} (cache {})", name, base, large, F10_M);
        }
        if large > 2 * base + 500_000 {
            return Outcome::violation(format!(
                "S6 violated for family {} (a packet of {} sets): {} instructions against a cache of {} templates, {} against a cache holding only the ids the packet uses",
                name, k, large, F10_M, base
            ));
        }
    }
    o
}

pub fn oracle(case: &Case) -> Outcome {
    if case.param("cg") != 0 {
        return oracle_cg(case);
    }
    let mut o = Outcome::pass();
    if !alloc::is_installed() {
        return Outcome::harness("HARNESS: counting allocator is not installed in this binary");
    }
    let split = case.param("split") as usize;
    let doubling = case.param("double") != 0;
    let halves: Vec<&[crate::engine::Call]> = if doubling {
        vec![&case.calls[..split], &case.calls[split..]]
    } else {
        vec![&case.calls[..]]
    };
    let mut lasts: Vec<Cost> = vec![];
    for (hi, half) in halves.iter().enumerate() {
        let mut p = obs::new_parser(&case.allowed_of(0));
        if case.param("allow_all") != 0 {
            // cost must not depend on how many versions the public allowed set holds
            p.allowed_versions = obs::all_versions();
        }
        let mut last = Cost::default();
        for (ci, c) in half.iter().enumerate() {
            let buf = c.buf();
            let before = obs::lib_cache(&p);
            let (cost, res) = measure(&mut p, &buf);
            let after = obs::lib_cache(&p);
            let zl = zero_length_budget(&before, &after, &buf);
            if let Err(m) = check_bounds(&mut o, &format!("half {} call {}", hi, ci), &cost, zl) {
                return Outcome::violation(m);
            }
            if cost.buf >= 1024 {
                o.nontrivial = true;
                o.label("buf>=1KiB");
            }
            if announces_much(&buf) {
                o.nontrivial = true;
                o.label("header-announces>=16x");
            }
            if res.len() >= 100 {
                o.label("elements>=100");
            }
            last = cost;
        }
        lasts.push(last);
    }
    if doubling && lasts.len() == 2 {
        o.nontrivial = true;
        o.label("S3-doubling-pair");
        let (a, b) = (lasts[0], lasts[1]);
        for (name, x, y) in [("alloc_bytes", a.bytes, b.bytes), ("alloc_calls", a.calls * 64, b.calls * 64), ("result_size", a.result, b.result)] {
            if y as f64 > 2.5 * x as f64 + K0 as f64 {
                // zero-length families are explained by the open finding
                if case.param("zerolen") != 0 {
                    o.hit("zerolen:amplification");
                    continue;
                }
                return Outcome::violation(format!(
                    "S3 violated for {}: input {} -> {} bytes, cost {} -> {} (more than 2.5x + 128KiB{})",
                    name,
                    a.buf,
                    b.buf,
                    x,
                    y,
                    if name == "alloc_calls" { "; calls scaled by 64" } else { "" }
                ));
            }
        }
    }
    o
}

/// some count/length field announces >= 16x more than present
fn announces_much(buf: &[u8]) -> bool {
    if buf.len() < 4 {
        return false;
    }
    match be16(buf, 0) {
        5 => 24 + 48 * be16(buf, 2) as usize >= 16 * buf.len(),
        7 => 24 + 52 * be16(buf, 2) as usize >= 16 * buf.len(),
        9 => be16(buf, 2) as usize * 4 >= 16 * buf.len(),
        10 => be16(buf, 2) as usize >= 16 * buf.len(),
        _ => false,
    }
}

// ---------------------------------------------------------------------------------------
// families
// ---------------------------------------------------------------------------------------

fn v9_pkt(count: u16, body: &[u8]) -> Vec<u8> {
    let mut w = W::default();
    enc_v9_header(&mut w, count, &[1, 2, 3, 4]);
    w.bytes(body);
    w.0
}
fn ipfix_msg(body: &[u8]) -> Vec<u8> {
    let mut w = W::default();
    enc_ipfix_header(&mut w, (16 + body.len()) as u16, &[1, 2, 3]);
    w.bytes(body);
    w.0
}
fn tpl_set(proto: Proto, id: u16, def: &Def) -> Vec<u8> {
    let mut r = W::default();
    enc_template_record(&mut r, proto, id, def);
    let mut s = W::default();
    enc_set(&mut s, template_set_id(proto, def.kind), &r.0, 0);
    s.0
}
fn plain(fields: Vec<(u16, u16)>) -> Def {
    Def { kind: Kind::Plain, scope_n: 0, fields: fields.into_iter().map(|(ie, len)| FieldSpec { ie, len, ent: None }).collect() }
}
fn data_set(id: u16, body_len: usize, fill: u8) -> Vec<u8> {
    let mut s = W::default();
    enc_set(&mut s, id, &vec![fill; body_len], 0);
    s.0
}


/// options template with one scope field and one option field
fn opt_small() -> Def {
    Def { kind: Kind::Options, scope_n: 1, fields: vec![FieldSpec { ie: 1, len: 4, ent: None }, FieldSpec { ie: 2, len: 4, ent: None }] }
}
/// one template set (one record) of `def` for `id`, padded to a 4-byte boundary
fn tpl_set_padded(proto: Proto, id: u16, def: &Def) -> Vec<u8> {
    let mut r = W::default();
    enc_template_record(&mut r, proto, id, def);
    let mut s = W::default();
    let pad = (4 - r.0.len() % 4) % 4;
    enc_set(&mut s, template_set_id(proto, def.kind), &r.0, pad);
    s.0
}
fn wrap(proto: Proto, nsets: usize, body: &[u8]) -> Vec<u8> {
    match proto {
        Proto::V9 => v9_pkt(nsets.min(0xffff) as u16, body),
        Proto::Ipfix => ipfix_msg(body),
    }
}
/// F10 base id / number of ids preloaded into the cache
const F10_BASE: u16 = 1000;
const F10_M: usize = 6000;
/// preloading calls that define ids F10_BASE..F10_BASE+F10_M with `def`, one record per set
fn preload_many(proto: Proto, def: &Def, m: usize) -> Vec<Vec<u8>> {
    let mut calls = vec![];
    let mut body: Vec<u8> = vec![];
    let mut n = 0usize;
    for i in 0..m {
        body.extend(tpl_set_padded(proto, F10_BASE + i as u16, def));
        n += 1;
        if body.len() > 60000 {
            calls.push(wrap(proto, n, &body));
            body.clear();
            n = 0;
        }
    }
    if !body.is_empty() {
        calls.push(wrap(proto, n, &body));
    }
    calls
}
/// F10: the cost of a call must not depend on how many templates earlier calls cached.
/// (what cached, what the measured packet's n sets do with n distinct cached ids)
fn family_f10(name: &str, n: usize) -> Option<(Vec<Vec<u8>>, Vec<u8>)> {
    // "F10s-...": the same packet against a cache that holds only the n ids it uses
    let (rest, m) = match name.strip_prefix("F10s-") {
        Some(r) => (r, n.clamp(1, F10_M)),
        None => (name.strip_prefix("F10-")?, F10_M),
    };
    let (proto, rest) = if let Some(r) = rest.strip_prefix("v9-") { (Proto::V9, r) } else { (Proto::Ipfix, rest.strip_prefix("ipfix-")?) };
    let small = plain(vec![(1, 4)]);
    let other = plain(vec![(2, 2), (1, 2)]);
    let opt = opt_small();
    let n = n.min(F10_M);
    let (cached, per_set): (&Def, Box<dyn Fn(u16) -> Vec<u8>>) = match rest {
        "options-cached-redefined-as-plain" => (&opt, Box::new(|id| tpl_set_padded(proto, id, &small))),
        "plain-cached-redefined-as-options" => (&small, Box::new(|id| tpl_set_padded(proto, id, &opt))),
        "plain-cached-redefined" => (&small, Box::new(|id| tpl_set_padded(proto, id, &other))),
        "plain-cached-data" => (&small, Box::new(|id| data_set(id, 4, 7))),
        "options-cached-data" => (&opt, Box::new(|id| data_set(id, 8, 7))),
        _ => return None,
    };
    let mut body = vec![];
    for i in 0..n {
        body.extend(per_set(F10_BASE + i as u16));
    }
    Some((preload_many(proto, cached, m), wrap(proto, n, &body)))
}

/// family instance of size parameter n: (preload calls, measured buffer)
pub fn family(name: &str, n: usize) -> Option<(Vec<Vec<u8>>, Vec<u8>)> {
    if name.starts_with("F10-") || name.starts_with("F10s-") {
        return family_f10(name, n);
    }
    if let Some(rest) = name.strip_prefix("F12-tiny-call-after-chain-") {
        // one datagram full of n header-only packets, then a single header-only packet: what a
        // call costs must not depend on how large the PREVIOUS call's buffer or result was
        let unit = match rest {
            "ipfix" => ipfix_msg(&[]),
            "v9" => v9_pkt(0, &[]),
            "v5" => enc_fixed(5, 0, &[0; 20], &[]),
            _ => return None,
        };
        return Some((vec![unit.repeat(n)], unit));
    }
    if let Some(rest) = name.strip_prefix("F11-history-") {
        // n earlier calls of one small packet each, then one more of the same kind: what a
        // call costs must not depend on how long the parser has been running
        let one = |i: usize| -> Vec<u8> {
            let id = 256 + (i % 65000) as u16;
            match rest {
                "distinct-unknown-ids-v9" => v9_pkt(1, &data_set(id, 4, 1)),
                "distinct-unknown-ids-ipfix" => ipfix_msg(&data_set(id, 4, 1)),
                "distinct-source-ids-v9" => {
                    let mut w = W::default();
                    enc_v9_header(&mut w, 0, &[1, 2, i as u32, 1000 + i as u32]);
                    w.0
                }
                "distinct-observation-domains-ipfix" => {
                    let mut w = W::default();
                    enc_ipfix_header(&mut w, 16, &[1, i as u32, 1000 + i as u32]);
                    w.0
                }
                "one-template-redefined-v9" => {
                    let mut b = tpl_set_padded(Proto::V9, 300, &plain(vec![(1, if i % 2 == 0 { 4 } else { 8 })]));
                    b.extend(data_set(300, if i % 2 == 0 { 4 } else { 8 }, 3));
                    v9_pkt(2, &b)
                }
                _ => {
                    let mut b = tpl_set_padded(Proto::Ipfix, 300, &plain(vec![(1, if i % 2 == 0 { 4 } else { 8 })]));
                    b.extend(data_set(300, if i % 2 == 0 { 4 } else { 8 }, 3));
                    ipfix_msg(&b)
                }
            }
        };
        if !["distinct-unknown-ids-v9", "distinct-unknown-ids-ipfix", "distinct-source-ids-v9", "distinct-observation-domains-ipfix", "one-template-redefined-v9", "one-template-redefined-ipfix"].contains(&rest) {
            return None;
        }
        return Some(((0..n).map(one).collect(), one(n)));
    }
    let wide = plain((0..1000).map(|i| ((i % 60 + 1) as u16, 1)).collect());
    let small = plain(vec![(1, 4)]);
    Some(match name {
        "F2-chain-ipfix" | "F2a-chain-ipfix-all-versions-allowed" => (vec![], ipfix_msg(&[]).repeat(n)),
        "F2a-chain-mixed-all-versions-allowed" => {
            let mut unit = ipfix_msg(&[]);
            unit.extend(v9_pkt(0, &[]));
            unit.extend(enc_fixed(5, 0, &[0; 20], &[]));
            (vec![], unit.repeat(n))
        }
        "F2-chain-v9" => (vec![], v9_pkt(0, &[]).repeat(n)),
        "F2-chain-v5" => (vec![], enc_fixed(5, 0, &[0; 20], &[]).repeat(n)),
        "F2-chain-v7" => (vec![], enc_fixed(7, 0, &[0; 20], &[]).repeat(n)),
        "F2-chain-v5-1rec" => (vec![], enc_fixed(5, 1, &[0; 20], &[vec![1; 48]]).repeat(n)),
        "F2-chain-ipfix-data" => (vec![ipfix_msg(&tpl_set(Proto::Ipfix, 256, &small))], ipfix_msg(&data_set(256, 4, 7)).repeat(n)),
        "F2-chain-v9-data" => (vec![v9_pkt(1, &tpl_set(Proto::V9, 256, &small))], v9_pkt(1, &data_set(256, 4, 7)).repeat(n)),
        "F3-ipfix-empty-sets-small-tpl" => (vec![ipfix_msg(&tpl_set(Proto::Ipfix, 256, &small))], ipfix_msg(&data_set(256, 0, 0).repeat(n))),
        "F3-ipfix-1rec-sets-small-tpl" => (vec![ipfix_msg(&tpl_set(Proto::Ipfix, 256, &small))], ipfix_msg(&data_set(256, 4, 9).repeat(n))),
        "F3-ipfix-1rec-sets-wide-tpl" => (vec![ipfix_msg(&tpl_set(Proto::Ipfix, 256, &wide))], ipfix_msg(&data_set(256, 4, 9).repeat(n))),
        "F3-v9-empty-flowsets-small-tpl" => (vec![v9_pkt(1, &tpl_set(Proto::V9, 256, &small))], v9_pkt(0xffff, &data_set(256, 0, 0).repeat(n))),
        "F3-v9-empty-flowsets-wide-tpl" => (vec![v9_pkt(1, &tpl_set(Proto::V9, 256, &wide))], v9_pkt(0xffff, &data_set(256, 0, 0).repeat(n))),
        "F3-v9-1rec-flowsets-small-tpl" => (vec![v9_pkt(1, &tpl_set(Proto::V9, 256, &small))], v9_pkt(0xffff, &data_set(256, 4, 9).repeat(n))),
        "F3-v9-short-flowsets-wide-tpl" => (vec![v9_pkt(1, &tpl_set(Proto::V9, 256, &wide))], v9_pkt(0xffff, &data_set(256, 4, 9).repeat(n))),
        // per-flowset cost must not scale with the width of the cached (options) template
        "F3-v9-empty-flowsets-16k-tpl" | "F3-v9-short-flowsets-16k-tpl" | "F3-v9-empty-flowsets-16k-opttpl" | "F3-v9-short-flowsets-16k-opttpl" | "F3-v9-short-flowsets-1k-opttpl" => {
            let nf = if name.contains("16k") { 16000 } else { 1000 };
            let mut d = plain((0..nf).map(|i| ((i % 60 + 1) as u16, 1)).collect());
            if name.contains("opttpl") {
                d.kind = Kind::Options;
                d.scope_n = 1;
            }
            let set = if name.contains("empty") { data_set(256, 0, 0) } else { data_set(256, 4, 9) };
            (vec![v9_pkt(1, &tpl_set_padded(Proto::V9, 256, &d))], v9_pkt(0xffff, &set.repeat(n)))
        }
        "F4-ipfix-1B-records" => (vec![ipfix_msg(&tpl_set(Proto::Ipfix, 300, &plain(vec![(5, 1)])))], ipfix_msg(&data_set(300, n, 0x41))),
        "F4-v9-1B-records" => (vec![v9_pkt(1, &tpl_set(Proto::V9, 300, &plain(vec![(5, 1)])))], v9_pkt(1, &data_set(300, n, 0x41))),
        "F4-ipfix-varlen-empty-records" => (vec![ipfix_msg(&tpl_set(Proto::Ipfix, 301, &plain(vec![(82, VARLEN)])))], ipfix_msg(&data_set(301, n, 0))),
        "F5-v9-n-fields" => {
            let d = plain((0..n).map(|i| ((i % 60 + 1) as u16, 1)).collect());
            (vec![], {
                let mut b = tpl_set(Proto::V9, 400, &d);
                b.extend(data_set(400, (n * 3).min(60000 - n * 4), 3));
                v9_pkt(2, &b)
            })
        }
        "F5-ipfix-n-fields" => {
            let d = plain((0..n).map(|i| ((i % 60 + 1) as u16, 1)).collect());
            (vec![], {
                let mut b = tpl_set(Proto::Ipfix, 400, &d);
                b.extend(data_set(400, (n * 3).min(60000 - n * 4), 3));
                ipfix_msg(&b)
            })
        }
        "F5-v9-n-templates" => {
            let recs: Vec<u8> = [0x01, 0x00, 0x00, 0x01, 0x00, 0x01, 0x00, 0x01].repeat(n);
            let mut s = W::default();
            enc_set(&mut s, 0, &recs, 0);
            (vec![], v9_pkt(1, &s.0))
        }
        "F7-v9-failing-records" => (vec![v9_pkt(1, &tpl_set(Proto::V9, 700, &plain(vec![(1, 5)])))], v9_pkt(1, &data_set(700, n, 1))),
        "F7-v9-failing-records-wide-tpl" => {
            let mut f: Vec<(u16, u16)> = vec![(1, 5)];
            f.extend((0..999).map(|_| (2u16, 1u16)));
            (vec![v9_pkt(1, &tpl_set(Proto::V9, 701, &plain(f)))], v9_pkt(1, &data_set(701, n, 1)))
        }
        "F6-v9-zero-length-fields" => {
            let mut f: Vec<(u16, u16)> = (0..200).map(|_| (94u16, 0u16)).collect();
            f.push((5, 1));
            (vec![v9_pkt(1, &tpl_set(Proto::V9, 500, &plain(f)))], v9_pkt(1, &data_set(500, n, 1)))
        }
        "F6-ipfix-zero-length-fields" => {
            let mut f: Vec<(u16, u16)> = (0..200).map(|_| (82u16, 0u16)).collect();
            f.push((5, 1));
            (vec![ipfix_msg(&tpl_set(Proto::Ipfix, 500, &plain(f)))], ipfix_msg(&data_set(500, n, 1)))
        }
        // chains of minimal messages/packets whose DATA announces (variable-length prefix) or
        // whose template declares (fixed width) far more bytes than the set holds
        n_ if n_.starts_with("F1d-chain-ipfix-short-data-") || n_.starts_with("F1d-chain-v9-short-data-") => {
            let v9 = n_.contains("-v9-");
            let kind = n_.rsplit("short-data-").next().unwrap_or("");
            let (spec, body): (FieldSpec, Vec<u8>) = match kind {
                "ent-varlen3" => (FieldSpec { ie: 100, len: VARLEN, ent: Some(9) }, vec![0xff, 0xff, 0xff]),
                "ent-varlen1" => (FieldSpec { ie: 100, len: VARLEN, ent: Some(9) }, vec![0xfe, 1, 2]),
                "ent-fixed" => (FieldSpec { ie: 100, len: 65534, ent: Some(9) }, vec![1, 2]),
                "str-varlen3" => (FieldSpec { ie: 82, len: VARLEN, ent: None }, vec![0xff, 0xff, 0xff]),
                "str-fixed" => (FieldSpec { ie: if v9 { 94 } else { 82 }, len: 65534, ent: None }, vec![1, 2]),
                "octets-fixed" => (FieldSpec { ie: if v9 { 95 } else { 313 }, len: 65534, ent: None }, vec![1, 2]),
                "untyped-fixed" => (FieldSpec { ie: if v9 { 1000 } else { 600 }, len: 65534, ent: None }, vec![1, 2]),
                _ => return None,
            };
            let d = Def { kind: Kind::Plain, scope_n: 0, fields: vec![spec] };
            let mut st = W::default();
            enc_set(&mut st, 256, &body, 0);
            if v9 {
                (vec![v9_pkt(1, &tpl_set_padded(Proto::V9, 256, &d))], v9_pkt(1, &st.0).repeat(n))
            } else {
                (vec![ipfix_msg(&tpl_set_padded(Proto::Ipfix, 256, &d))], ipfix_msg(&st.0).repeat(n))
            }
        }
        // chains of minimal packets whose count fields announce far more than is present
        "F1c-chain-ipfix-opttpl-scope-overannounced" => {
            let mut r = W::default();
            r.u16(256).u16(0).u16(0xffff);
            let mut st = W::default();
            enc_set(&mut st, 3, &r.0, 0);
            (vec![], ipfix_msg(&st.0).repeat(n))
        }
        "F1c-chain-ipfix-opttpl-fields-overannounced" => {
            let mut r = W::default();
            r.u16(256).u16(0xffff).u16(1);
            let mut st = W::default();
            enc_set(&mut st, 3, &r.0, 0);
            (vec![], ipfix_msg(&st.0).repeat(n))
        }
        "F1c-chain-ipfix-tpl-fields-overannounced" => {
            let mut r = W::default();
            r.u16(256).u16(0xffff);
            let mut st = W::default();
            enc_set(&mut st, 2, &r.0, 0);
            (vec![], ipfix_msg(&st.0).repeat(n))
        }
        "F1c-chain-v9-tpl-fields-overannounced" => {
            let mut r = W::default();
            r.u16(256).u16(0xffff);
            let mut st = W::default();
            enc_set(&mut st, 0, &r.0, 0);
            (vec![], v9_pkt(1, &st.0).repeat(n))
        }
        "F1c-chain-v9-opttpl-lengths-overannounced" => {
            let mut r = W::default();
            r.u16(256).u16(0xfffc).u16(0xfffc);
            let mut st = W::default();
            enc_set(&mut st, 1, &r.0, 0);
            (vec![], v9_pkt(1, &st.0).repeat(n))
        }
        "F1c-v9-flowsets-tpl-fields-overannounced" => {
            // one packet, n template flowsets each announcing 65535 fields
            let mut r = W::default();
            r.u16(256).u16(0xffff);
            let mut st = W::default();
            enc_set(&mut st, 0, &r.0, 0);
            (vec![], v9_pkt(0xffff, &st.0.repeat(n)))
        }
        // decode n one-byte records, then fail the packet on a flowset without template:
        // all work is discarded (the legitimate worst case for S1's K1)
        "F9-v9-decode-then-discard" => {
            let mut b = data_set(300, n, 0x41);
            b.extend(data_set(9999, 4, 1));
            (vec![v9_pkt(1, &tpl_set(Proto::V9, 300, &plain(vec![(5, 1)])))], v9_pkt(2, &b))
        }
        "F9-ipfix-decode-then-truncated-varlen" => {
            // n one-byte records of a variable-length template, the last prefix overruns
            let mut body = vec![0u8; n];
            body.push(200);
            let mut st = W::default();
            enc_set(&mut st, 301, &body, 0);
            (vec![ipfix_msg(&tpl_set(Proto::Ipfix, 301, &plain(vec![(82, VARLEN)])))], ipfix_msg(&st.0))
        }
        _ => return None,
    })
}

/// (family, unit size in bytes per n, max n)
pub const FAMILIES: &[(&str, usize, usize)] = &[
    ("F2-chain-ipfix", 16, 4095),
    ("F2a-chain-ipfix-all-versions-allowed", 16, 4095),
    ("F2a-chain-mixed-all-versions-allowed", 60, 1090),
    ("F2-chain-v9", 20, 3276),
    ("F2-chain-v5", 24, 2730),
    ("F2-chain-v7", 24, 2730),
    ("F2-chain-v5-1rec", 72, 910),
    ("F2-chain-ipfix-data", 24, 2730),
    ("F2-chain-v9-data", 28, 2340),
    ("F3-ipfix-empty-sets-small-tpl", 4, 16000),
    ("F3-ipfix-1rec-sets-small-tpl", 8, 8000),
    ("F3-ipfix-1rec-sets-wide-tpl", 8, 8000),
    ("F3-v9-empty-flowsets-small-tpl", 4, 16000),
    ("F3-v9-empty-flowsets-wide-tpl", 4, 16000),
    ("F3-v9-1rec-flowsets-small-tpl", 8, 8000),
    ("F3-v9-short-flowsets-wide-tpl", 8, 8000),
    ("F3-v9-empty-flowsets-16k-tpl", 4, 16000),
    ("F3-v9-short-flowsets-16k-tpl", 8, 8000),
    ("F3-v9-empty-flowsets-16k-opttpl", 4, 16000),
    ("F3-v9-short-flowsets-16k-opttpl", 8, 8000),
    ("F3-v9-short-flowsets-1k-opttpl", 8, 8000),
    ("F4-ipfix-1B-records", 1, 65000),
    ("F4-v9-1B-records", 1, 65000),
    ("F4-ipfix-varlen-empty-records", 1, 65000),
    ("F5-v9-n-fields", 7, 8000),
    ("F5-ipfix-n-fields", 7, 8000),
    ("F5-v9-n-templates", 8, 8000),
    ("F7-v9-failing-records", 1, 65000),
    ("F7-v9-failing-records-wide-tpl", 1, 65000),
    ("F1c-chain-ipfix-opttpl-scope-overannounced", 26, 2520),
    ("F1c-chain-ipfix-opttpl-fields-overannounced", 26, 2520),
    ("F1c-chain-ipfix-tpl-fields-overannounced", 24, 2730),
    ("F1c-chain-v9-tpl-fields-overannounced", 28, 2340),
    ("F1c-chain-v9-opttpl-lengths-overannounced", 30, 2184),
    ("F1c-v9-flowsets-tpl-fields-overannounced", 8, 8000),
    ("F1d-chain-ipfix-short-data-ent-varlen3", 23, 2800),
    ("F1d-chain-ipfix-short-data-ent-varlen1", 23, 2800),
    ("F1d-chain-ipfix-short-data-ent-fixed", 22, 2900),
    ("F1d-chain-ipfix-short-data-str-varlen3", 23, 2800),
    ("F1d-chain-ipfix-short-data-str-fixed", 22, 2900),
    ("F1d-chain-ipfix-short-data-octets-fixed", 22, 2900),
    ("F1d-chain-ipfix-short-data-untyped-fixed", 22, 2900),
    ("F1d-chain-v9-short-data-str-fixed", 26, 2500),
    ("F1d-chain-v9-short-data-octets-fixed", 26, 2500),
    ("F1d-chain-v9-short-data-untyped-fixed", 26, 2500),
    ("F9-v9-decode-then-discard", 1, 65000),
    ("F9-ipfix-decode-then-truncated-varlen", 1, 65000),
    ("F10-v9-options-cached-redefined-as-plain", 12, 5000),
    ("F10-v9-plain-cached-redefined-as-options", 24, 2500),
    ("F10-v9-plain-cached-redefined", 16, 3700),
    ("F10-v9-plain-cached-data", 8, 6000),
    ("F10-v9-options-cached-data", 12, 5000),
    ("F10-ipfix-options-cached-redefined-as-plain", 12, 5000),
    ("F10-ipfix-plain-cached-redefined-as-options", 20, 3000),
    ("F10-ipfix-plain-cached-redefined", 16, 3700),
    ("F10-ipfix-plain-cached-data", 8, 6000),
    ("F10-ipfix-options-cached-data", 12, 5000),
    ("F12-tiny-call-after-chain-ipfix", 16, 4095),
    ("F12-tiny-call-after-chain-v9", 20, 3276),
    ("F12-tiny-call-after-chain-v5", 24, 2730),
    ("F11-history-distinct-unknown-ids-v9", 1, 60000),
    ("F11-history-distinct-unknown-ids-ipfix", 1, 60000),
    ("F11-history-distinct-source-ids-v9", 1, 60000),
    ("F11-history-distinct-observation-domains-ipfix", 1, 60000),
    ("F11-history-one-template-redefined-v9", 1, 60000),
    ("F11-history-one-template-redefined-ipfix", 1, 60000),
    ("F6-v9-zero-length-fields", 1, 1000),
    ("F6-ipfix-zero-length-fields", 1, 1000),
];

fn doubling_cases() -> Vec<Case> {
    let mut out = vec![];
    for (name, _unit, max) in FAMILIES {
        let mut n = *max;
        for _ in 0..3 {
            let half = n / 2;
            if half == 0 {
                break;
            }
            let (pre_a, a) = family(name, half).unwrap();
            let (pre_b, b) = family(name, n).unwrap();
            let mut bufs: Vec<Vec<u8>> = pre_a;
            bufs.push(a);
            let split = bufs.len();
            bufs.extend(pre_b);
            bufs.push(b);
            let mut c = Case::history(bufs);
            c.params.insert("double".into(), 1);
            c.params.insert("split".into(), split as i64);
            if name.starts_with("F6") {
                c.params.insert("zerolen".into(), 1);
            }
            if name.contains("all-versions-allowed") {
                c.params.insert("allow_all".into(), 1);
            }
            out.push(c);
            n = half;
        }
    }
    out
}

fn cg_cases() -> Vec<Case> {
    let mut out = vec![];
    for (i, (_name, _unit, max)) in FAMILIES.iter().enumerate() {
        if *max < 8 {
            continue;
        }
        let mut c = Case::history(vec![]);
        c.params.insert("cg".into(), 1);
        c.params.insert("family_index".into(), i as i64);
        c.params.insert("n".into(), *max as i64);
        out.push(c);
    }
    out
}

fn hostile_headers() -> Vec<Case> {
    let mut out = vec![];
    let small = plain(vec![(1, 4)]);
    for big in [0xffffu16, 0x7fff, 0x8000, 0x0fff] {
        // V5/V7 count over short bodies
        for v in [5u16, 7] {
            for recs in [0usize, 1, 3] {
                let rl = if v == 5 { 48 } else { 52 };
                out.push(Case::single(enc_fixed(v, big, &[0; 20], &vec![vec![1u8; rl]; recs])));
            }
        }
        // V9 count
        out.push(Case::single(v9_pkt(big, &[])));
        out.push(Case::single(v9_pkt(big, &tpl_set(Proto::V9, 256, &small))));
        // V9 template field_count / options lengths announcing more than present
        {
            let mut s = W::default();
            let mut r = W::default();
            r.u16(256).u16(big).u16(1).u16(4);
            enc_set(&mut s, 0, &r.0, 0);
            out.push(Case::single(v9_pkt(1, &s.0)));
            let mut s = W::default();
            let mut r = W::default();
            r.u16(256).u16(big).u16(big).u16(1).u16(4);
            enc_set(&mut s, 1, &r.0, 0);
            out.push(Case::single(v9_pkt(1, &s.0)));
        }
        // flowset / set length fields
        {
            let mut b = vec![];
            b.extend_from_slice(&0u16.to_be_bytes());
            b.extend_from_slice(&big.to_be_bytes());
            b.extend_from_slice(&[1, 0, 0, 1, 0, 1, 0, 4]);
            out.push(Case::single(v9_pkt(1, &b)));
            let mut m = W::default();
            enc_ipfix_header(&mut m, big, &[1, 2, 3]);
            m.bytes(&[0, 2, 0, 12, 1, 0, 0, 1, 0, 1, 0, 4]);
            out.push(Case::single(m.0));
            let mut m = W::default();
            enc_ipfix_header(&mut m, 28, &[1, 2, 3]);
            m.u16(2).u16(big).bytes(&[1, 0, 0, 1, 0, 1, 0, 4]);
            out.push(Case::single(m.0));
        }
        // IPFIX template field_count, options template counts
        {
            let mut r = W::default();
            r.u16(256).u16(big).u16(1).u16(4);
            let mut s = W::default();
            enc_set(&mut s, 2, &r.0, 0);
            out.push(Case::single(ipfix_msg(&s.0)));
            let mut r = W::default();
            r.u16(256).u16(big).u16(big).u16(1).u16(4);
            let mut s = W::default();
            enc_set(&mut s, 3, &r.0, 0);
            out.push(Case::single(ipfix_msg(&s.0)));
            let mut r = W::default();
            r.u16(256).u16(big).u16(1).u16(1).u16(4);
            let mut s = W::default();
            enc_set(&mut s, 3, &r.0, 0);
            out.push(Case::single(ipfix_msg(&s.0)));
        }
        // variable-length 3-byte length announcing more than present, huge declared widths
        {
            let t = ipfix_msg(&tpl_set(Proto::Ipfix, 256, &plain(vec![(82, VARLEN)])));
            let mut d = W::default();
            let mut body = vec![255u8];
            body.extend_from_slice(&big.to_be_bytes());
            body.extend_from_slice(&[1, 2, 3]);
            enc_set(&mut d, 256, &body, 0);
            out.push(Case::history(vec![t, ipfix_msg(&d.0)]));
            let t = ipfix_msg(&tpl_set(Proto::Ipfix, 257, &plain(vec![(82, big.min(0xfffe))])));
            out.push(Case::history(vec![t, ipfix_msg(&data_set(257, 8, 1))]));
            let t = v9_pkt(1, &tpl_set(Proto::V9, 257, &plain(vec![(94, big)])));
            out.push(Case::history(vec![t, v9_pkt(1, &data_set(257, 8, 1))]));
        }
    }
    out
}

fn family_singles() -> Vec<Case> {
    let mut out = vec![];
    for (name, _u, max) in FAMILIES {
        for n in [1usize, 2, 3, 10, 100, *max / 3, *max] {
            if n == 0 || n > *max {
                continue;
            }
            let (pre, b) = family(name, n).unwrap();
            let mut bufs = pre;
            bufs.push(b);
            let mut c = Case::history(bufs);
            if name.starts_with("F6") {
                c.params.insert("zerolen".into(), 1);
            }
            if name.contains("all-versions-allowed") {
                c.params.insert("allow_all".into(), 1);
            }
            out.push(c);
        }
    }
    out
}

pub fn run(ctx: &Ctx) {
    ctx.replay_findings(&oracle);
    ctx.enumerate("F1-hostile-headers", hostile_headers(), false, &oracle);
    ctx.enumerate("F2-F10-family-instances", family_singles(), false, &oracle);
    ctx.enumerate("S3-doubling-pairs", doubling_cases(), false, &oracle);
    ctx.enumerate("S5-S6-instruction-counts", cg_cases(), false, &oracle);
    ctx.search("F8-hostile-histories", ctx.n(200_000, 15_000_000), &gen::hostile_case, &oracle);
    ctx.search("F8-datagram-sized-stress-cases-mutated", ctx.n(320, 10_000), &super::c01::stress_mut_case, &oracle);
    let c = StreamCfg::small(Mix { fixed: 1, v9: 3, ipfix: 3 });
    ctx.search("F8-conformant-histories", ctx.n(50_000, 4_000_000), &move || gen::conformant_case(c, BuildOpts::WIDE), &oracle);
    let big = StreamCfg { max_recs: 60, max_sets: 8, pkts_per_call: (2, 6), ..c };
    ctx.search("F8-larger-conformant", ctx.n(3_000, 300_000), &move || gen::conformant_case(big, BuildOpts { count_by_flowsets: true, ..BuildOpts::WIDE }), &oracle);
    ctx.put_extra(
        "observed_max_ratios",
        serde_json::json!({
            "max (alloc_bytes - K0 - K2*result)/buf": MAX_R1.load(Ordering::Relaxed),
            "max (result - K0)/(buf+templates)": MAX_R2.load(Ordering::Relaxed),
            "max alloc_bytes/result in percent (results >= 64 KiB)": MAX_R3.load(Ordering::Relaxed),
            "K0": K0, "K1": K1, "K2": K2, "K3": K3,
        }),
    );
    ctx.put_extra(
        "S5_S6_instruction_counts",
        serde_json::json!({
            "family pairs measured with callgrind": S5_PAIRS.load(Ordering::Relaxed),
            "max instructions(n)/instructions(n/4)": S5_MAX_RATIO_X100.load(Ordering::Relaxed) as f64 / 100.0,
            "max instructions(large cache)/instructions(small cache)": S6_MAX_RATIO_X100.load(Ordering::Relaxed) as f64 / 100.0,
            "max instructions(call after n earlier calls)/instructions(after n/4)": S7_MAX_RATIO_X100.load(Ordering::Relaxed) as f64 / 100.0,
            "pairs skipped because valgrind is not available or a run failed": S5_SKIPPED.load(Ordering::Relaxed),
        }),
    );
}
