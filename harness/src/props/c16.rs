//! C16 - every parse result serializes to JSON, deterministically and faithfully.

use super::PropDef;
use crate::engine::{Case, Ctx, Outcome};
use crate::gen::{self, BuildOpts, Mix, StreamCfg};
use crate::json::{self, J};
use crate::obs;
use netflow_parser::variable_versions::data_number::{DataNumber, FieldValue};
use netflow_parser::variable_versions::{ipfix, v9};
use netflow_parser::{NetflowPacket, NetflowParseError};

pub const DEF: PropDef = PropDef {
    id: "C16",
    run,
    oracle,
    rule: "cases = results of conformant V9/IPFIX/V5/V7 histories (wide mode, value bias towards 128-bit counters >= 2^64, NaN/+-inf/-0.0/subnormal floats, invalid UTF-8, quotes, backslashes and control characters in strings, empty and 254/255/256-byte variable-length values, 3- and 16-byte numbers) and of hostile histories (error elements with arbitrary remaining bytes, odd-shaped V9/IPFIX packets); two parser instances per case. Oracle: (1) serde_json::to_string and to_writer succeed for the whole result vector and for each element and agree; (2) the text parses with the harness' own RFC 8259 reader (numbers as text, member order kept); (3) serialising twice (also once more after the rest of the history has been parsed), and serialising the results of a second parser instance fed the same history, gives identical text; (4) faithfulness walk: an expected tree is built from the Rust values by the harness (variant names via Debug, integers incl. u128 as decimal text, addresses via Display, durations as {secs,nanos}, strings verbatim, bytes as number arrays, error kinds and remaining bytes) and compared with the parsed JSON: struct members by name with no member missing (unknown additional members are ignored), record maps with their keys in ascending field order; finite floats must parse back to the same f64 bits, non-finite floats must be null (serde_json's documented behaviour). non-trivial = the result holds a u128 >= 2^64, a non-finite float, a string needing escapes or holding U+FFFD, an error element, or >= 2 data records; distinct by digest.",
    assumptions: &["streaming serialisation (to_string/to_writer) is what the statement covers; serde_json::to_value cannot hold integers above u64::MAX and is not checked", "non-finite floats serialise to null, accepted as faithful-as-JSON-allows"],
};

/// expected JSON, built from the Rust values by the harness
#[derive(Debug, Clone)]
enum E {
    Int(String),
    F64(f64),
    Str(String),
    Arr(Vec<E>),
    /// struct: members matched by name, no extras
    Struct(Vec<(String, E)>),
    /// map: members and order must match exactly
    Map(Vec<(String, E)>),
    /// a value of a kind this harness does not know (a variant added to the library later):
    /// any well-formed JSON is accepted for it
    Any,
}

fn int<T: std::fmt::Display>(v: T) -> E {
    E::Int(v.to_string())
}
fn bytes(b: &[u8]) -> E {
    E::Arr(b.iter().map(int).collect())
}
fn st(m: Vec<(&str, E)>) -> E {
    E::Struct(m.into_iter().map(|(k, v)| (k.to_string(), v)).collect())
}
fn tag(name: &str, v: E) -> E {
    E::Struct(vec![(name.to_string(), v)])
}
fn dbg<T: std::fmt::Debug>(v: &T) -> E {
    E::Str(format!("{:?}", v))
}

struct Notes {
    big_u128: bool,
    nonfinite: bool,
    escapes: bool,
    data_records: usize,
}

fn value(v: &FieldValue, n: &mut Notes) -> E {
    match v {
        FieldValue::String(s) => {
            if s.chars().any(|c| c == '"' || c == '\\' || (c as u32) < 0x20 || c == '\u{fffd}') {
                n.escapes = true;
            }
            tag("String", E::Str(s.clone()))
        }
        FieldValue::DataNumber(d) => tag(
            "DataNumber",
            match d {
                DataNumber::U8(x) => int(x),
                DataNumber::U16(x) => int(x),
                DataNumber::U24(x) => int(x),
                DataNumber::I24(x) => int(x),
                DataNumber::U32(x) => int(x),
                DataNumber::U64(x) => int(x),
                DataNumber::U128(x) => {
                    if *x > u64::MAX as u128 {
                        n.big_u128 = true;
                    }
                    int(x)
                }
                DataNumber::I32(x) => int(x),
                #[allow(unreachable_patterns)]
                _ => E::Any,
            },
        ),
        FieldValue::Float64(f) => {
            if !f.is_finite() {
                n.nonfinite = true;
            }
            tag("Float64", E::F64(*f))
        }
        FieldValue::Duration(d) => tag("Duration", st(vec![("secs", int(d.as_secs())), ("nanos", int(d.subsec_nanos()))])),
        FieldValue::Ip4Addr(a) => tag("Ip4Addr", E::Str(a.to_string())),
        FieldValue::Ip6Addr(a) => tag("Ip6Addr", E::Str(a.to_string())),
        FieldValue::MacAddr(m) => tag("MacAddr", E::Str(m.clone())),
        FieldValue::Vec(b) => tag("Vec", bytes(b)),
        FieldValue::ProtocolType(p) => tag("ProtocolType", dbg(p)),
        FieldValue::Unknown(b) => tag("Unknown", bytes(b)),
        #[allow(unreachable_patterns)]
        _ => E::Any,
    }
}

fn named(n: &[(&'static str, u64)], protos: Option<&(u8, String)>) -> E {
    let mut m: Vec<(String, E)> = vec![];
    for (k, v) in n {
        let e = match *k {
            "src_addr" | "dst_addr" | "next_hop" | "router_src" => E::Str(std::net::Ipv4Addr::from(*v as u32).to_string()),
            _ => int(v),
        };
        m.push((k.to_string(), e));
    }
    if let Some((_, name)) = protos {
        m.push(("protocol_type".to_string(), E::Str(name.clone())));
    }
    E::Struct(m)
}

fn v9_tfield(f: &v9::TemplateField) -> E {
    st(vec![
        ("field_type_number", int(f.field_type_number)),
        ("field_type", dbg(&f.field_type)),
        ("field_length", int(f.field_length)),
    ])
}

fn ipfix_tfield(f: &ipfix::TemplateField) -> E {
    let mut m = vec![
        ("field_type_number", int(f.field_type_number)),
        ("field_type", dbg(&f.field_type)),
        ("field_length", int(f.field_length)),
    ];
    if let Some(e) = f.enterprise_number {
        m.push(("enterprise_number", int(e)));
    }
    st(m)
}

fn expected(el: &NetflowPacket, n: &mut Notes) -> E {
    match el {
        NetflowPacket::V5(p) => {
            let (h, recs, protos) = super::c03::v5_named(p);
            tag(
                "V5",
                st(vec![
                    ("header", named(&h, None)),
                    ("flowsets", E::Arr(recs.iter().zip(protos.iter()).map(|(r, pr)| named(r, Some(pr))).collect())),
                ]),
            )
        }
        NetflowPacket::V7(p) => {
            let (h, recs, protos) = super::c03::v7_named(p);
            tag(
                "V7",
                st(vec![
                    ("header", named(&h, None)),
                    ("flowsets", E::Arr(recs.iter().zip(protos.iter()).map(|(r, pr)| named(r, Some(pr))).collect())),
                ]),
            )
        }
        NetflowPacket::V9(p) => {
            let h = &p.header;
            let header = st(vec![
                ("version", int(h.version)),
                ("count", int(h.count)),
                ("sys_up_time", int(h.sys_up_time)),
                ("unix_secs", int(h.unix_secs)),
                ("sequence_number", int(h.sequence_number)),
                ("source_id", int(h.source_id)),
            ]);
            let sets = p
                .flowsets
                .iter()
                .map(|f| {
                    let body = match &f.body {
                        v9::FlowSetBody::Template(t) => tag(
                            "Template",
                            st(vec![(
                                "templates",
                                E::Arr(
                                    t.templates
                                        .iter()
                                        .map(|t| {
                                            st(vec![
                                                ("template_id", int(t.template_id)),
                                                ("field_count", int(t.field_count)),
                                                ("fields", E::Arr(t.fields.iter().map(v9_tfield).collect())),
                                            ])
                                        })
                                        .collect(),
                                ),
                            )]),
                        ),
                        v9::FlowSetBody::OptionsTemplate(t) => tag(
                            "OptionsTemplate",
                            st(vec![(
                                "templates",
                                E::Arr(
                                    t.templates
                                        .iter()
                                        .map(|t| {
                                            st(vec![
                                                ("template_id", int(t.template_id)),
                                                ("options_scope_length", int(t.options_scope_length)),
                                                ("options_length", int(t.options_length)),
                                                (
                                                    "scope_fields",
                                                    E::Arr(
                                                        t.scope_fields
                                                            .iter()
                                                            .map(|s| {
                                                                st(vec![
                                                                    ("field_type_number", int(s.field_type_number)),
                                                                    ("field_type", dbg(&s.field_type)),
                                                                    ("field_length", int(s.field_length)),
                                                                ])
                                                            })
                                                            .collect(),
                                                    ),
                                                ),
                                                ("option_fields", E::Arr(t.option_fields.iter().map(v9_tfield).collect())),
                                            ])
                                        })
                                        .collect(),
                                ),
                            )]),
                        ),
                        v9::FlowSetBody::Data(d) => {
                            n.data_records += d.fields.len();
                            tag(
                                "Data",
                                st(vec![(
                                    "fields",
                                    E::Arr(
                                        d.fields
                                            .iter()
                                            .map(|rec| E::Map(rec.iter().map(|(i, (f, v))| (i.to_string(), E::Arr(vec![dbg(f), value(v, n)]))).collect()))
                                            .collect(),
                                    ),
                                )]),
                            )
                        }
                        v9::FlowSetBody::OptionsData(d) => tag(
                            "OptionsData",
                            st(vec![
                                (
                                    "scope_fields",
                                    E::Arr(
                                        d.scope_fields
                                            .iter()
                                            .map(|s| match s {
                                                v9::ScopeDataField::System(b) => tag("System", bytes(b)),
                                                v9::ScopeDataField::Interface(b) => tag("Interface", bytes(b)),
                                                v9::ScopeDataField::LineCard(b) => tag("LineCard", bytes(b)),
                                                v9::ScopeDataField::NetFlowCache(b) => tag("NetFlowCache", bytes(b)),
                                                v9::ScopeDataField::Template(b) => tag("Template", bytes(b)),
                                            })
                                            .collect(),
                                    ),
                                ),
                                (
                                    "options_fields",
                                    E::Arr(
                                        d.options_fields
                                            .iter()
                                            .map(|f| st(vec![("field_type", dbg(&f.field_type)), ("field_value", bytes(&f.field_value))]))
                                            .collect(),
                                    ),
                                ),
                            ]),
                        ),
                    };
                    st(vec![
                        ("header", st(vec![("flowset_id", int(f.header.flowset_id)), ("length", int(f.header.length))])),
                        ("body", body),
                    ])
                })
                .collect();
            tag("V9", st(vec![("header", header), ("flowsets", E::Arr(sets))]))
        }
        NetflowPacket::IPFix(m) => {
            let h = &m.header;
            let header = st(vec![
                ("version", int(h.version)),
                ("length", int(h.length)),
                ("export_time", int(h.export_time)),
                ("sequence_number", int(h.sequence_number)),
                ("observation_domain_id", int(h.observation_domain_id)),
            ]);
            let recs = |fields: &Vec<std::collections::BTreeMap<usize, (netflow_parser::variable_versions::ipfix_lookup::IPFixField, FieldValue)>>, n: &mut Notes| {
                E::Arr(
                    fields
                        .iter()
                        .map(|rec| E::Map(rec.iter().map(|(i, (f, v))| (i.to_string(), E::Arr(vec![dbg(f), value(v, n)]))).collect()))
                        .collect(),
                )
            };
            let sets = m
                .flowsets
                .iter()
                .map(|f| {
                    let body = match &f.body {
                        ipfix::FlowSetBody::Template(t) => tag(
                            "Template",
                            st(vec![
                                ("template_id", int(t.template_id)),
                                ("field_count", int(t.field_count)),
                                ("fields", E::Arr(t.fields.iter().map(ipfix_tfield).collect())),
                            ]),
                        ),
                        ipfix::FlowSetBody::OptionsTemplate(t) => tag(
                            "OptionsTemplate",
                            st(vec![
                                ("template_id", int(t.template_id)),
                                ("field_count", int(t.field_count)),
                                ("scope_field_count", int(t.scope_field_count)),
                                ("fields", E::Arr(t.fields.iter().map(ipfix_tfield).collect())),
                            ]),
                        ),
                        ipfix::FlowSetBody::Data(d) => {
                            n.data_records += d.fields.len();
                            tag("Data", st(vec![("fields", recs(&d.fields, n))]))
                        }
                        ipfix::FlowSetBody::OptionsData(d) => tag("OptionsData", st(vec![("fields", recs(&d.fields, n))])),
                    };
                    st(vec![
                        ("header", st(vec![("header_id", int(f.header.header_id)), ("length", int(f.header.length))])),
                        ("body", body),
                    ])
                })
                .collect();
            tag("IPFix", st(vec![("header", header), ("flowsets", E::Arr(sets))]))
        }
        NetflowPacket::Error(e) => {
            let kind = match &e.error {
                NetflowParseError::Incomplete(s) => tag("Incomplete", E::Str(s.clone())),
                NetflowParseError::Partial(p) => tag(
                    "Partial",
                    st(vec![("version", int(p.version)), ("remaining", bytes(&p.remaining)), ("error", E::Str(p.error.clone()))]),
                ),
                NetflowParseError::UnallowedVersion(v) => tag("UnallowedVersion", int(v)),
                NetflowParseError::UnknownVersion(b) => tag("UnknownVersion", bytes(b)),
                #[allow(unreachable_patterns)]
                _ => E::Any,
            };
            tag("Error", st(vec![("error", kind), ("remaining", bytes(&e.remaining))]))
        }
    }
}

fn cmp(path: &str, e: &E, j: &J) -> Result<(), String> {
    match (e, j) {
        (E::Any, _) => Ok(()),
        (E::Int(t), J::Num(s)) => {
            if t == s {
                Ok(())
            } else {
                Err(format!("{}: JSON has {}, value is {}", path, s, t))
            }
        }
        (E::F64(f), J::Num(s)) if f.is_finite() => match s.parse::<f64>() {
            Ok(g) if g.to_bits() == f.to_bits() => Ok(()),
            _ => Err(format!("{}: JSON number {} does not read back as {:?}", path, s, f)),
        },
        (E::F64(f), J::Null) if !f.is_finite() => Ok(()),
        (E::Str(a), J::Str(b)) => {
            if a == b {
                Ok(())
            } else {
                Err(format!("{}: JSON string {:?} differs from {:?}", path, b, a))
            }
        }
        (E::Arr(a), J::Arr(b)) => {
            if a.len() != b.len() {
                return Err(format!("{}: {} items expected, JSON array has {}", path, a.len(), b.len()));
            }
            for (i, (x, y)) in a.iter().zip(b.iter()).enumerate() {
                cmp(&format!("{}[{}]", path, i), x, y)?;
            }
            Ok(())
        }
        (E::Struct(a), J::Obj(b)) => {
            for (k, v) in a {
                let hits: Vec<&J> = b.iter().filter(|(n, _)| n == k).map(|(_, v)| v).collect();
                match hits.len() {
                    0 => return Err(format!("{}: member '{}' is missing from the JSON", path, k)),
                    1 => cmp(&format!("{}.{}", path, k), v, hits[0])?,
                    _ => return Err(format!("{}: member '{}' occurs {} times", path, k, hits.len())),
                }
            }
            // members the harness does not know (an additive change of the serialised form)
            // are not a violation: the statement asks for the listed items to be equal
            Ok(())
        }
        (E::Map(a), J::Obj(b)) => {
            let ka: Vec<&String> = a.iter().map(|(k, _)| k).collect();
            let kb: Vec<&String> = b.iter().map(|(k, _)| k).collect();
            if ka != kb {
                return Err(format!("{}: record keys in JSON are {:?}, record has {:?} (template order)", path, kb, ka));
            }
            for ((k, x), (_, y)) in a.iter().zip(b.iter()) {
                cmp(&format!("{}.{}", path, k), x, y)?;
            }
            Ok(())
        }
        (e, j) => Err(format!("{}: JSON holds {:?} where {:?} is expected", path, short(j), short_e(e))),
    }
}

fn short(j: &J) -> String {
    let s = format!("{:?}", j);
    s.chars().take(80).collect()
}
fn short_e(e: &E) -> String {
    let s = format!("{:?}", e);
    s.chars().take(80).collect()
}

pub fn oracle(case: &Case) -> Outcome {
    let mut o = Outcome::pass();
    let n = case.n_parsers();
    let mut a: Vec<_> = (0..n).map(|i| obs::new_parser(&case.allowed_of(i))).collect();
    let mut b: Vec<_> = (0..n).map(|i| obs::new_parser(&case.allowed_of(i))).collect();
    let mut notes = Notes { big_u128: false, nonfinite: false, escapes: false, data_records: 0 };
    // results of earlier calls are serialised once more after the whole history (a result must
    // not depend on what the parser learns later)
    let mut kept: Vec<(usize, Vec<netflow_parser::NetflowPacket>, String)> = vec![];
    for (ci, c) in case.calls.iter().enumerate() {
        let buf = c.buf();
        let ra = a[c.parser].parse_bytes(&buf);
        let rb = b[c.parser].parse_bytes(&buf);
        // (1) serialisation succeeds, whole vector and per element, string and writer agree
        let text = match serde_json::to_string(&ra) {
            Ok(t) => t,
            Err(e) => return Outcome::violation(format!("call {}: serde_json::to_string fails: {}", ci, e)),
        };
        let mut w: Vec<u8> = vec![];
        if let Err(e) = serde_json::to_writer(&mut w, &ra) {
            return Outcome::violation(format!("call {}: serde_json::to_writer fails: {}", ci, e));
        }
        if w != text.as_bytes() {
            return Outcome::violation(format!("call {}: to_writer and to_string disagree", ci));
        }
        if ci + 1 < case.calls.len() && kept.len() < 8 {
            kept.push((ci, ra.clone(), text.clone()));
        }
        // (3) determinism
        match serde_json::to_string(&ra) {
            Ok(t2) if t2 == text => {}
            _ => return Outcome::violation(format!("call {}: serialising the same result twice gives different text", ci)),
        }
        match serde_json::to_string(&rb) {
            Ok(t2) if t2 == text => {}
            _ => return Outcome::violation(format!("call {}: a second parser instance fed the same history serialises differently", ci)),
        }
        // (2) well-formed by an independent reader
        let tree = match json::parse(&text) {
            Ok(t) => t,
            Err(e) => return Outcome::violation(format!("call {}: output is not well-formed JSON: {}", ci, e)),
        };
        let J::Arr(items) = &tree else {
            return Outcome::violation(format!("call {}: result vector does not serialise to an array", ci));
        };
        if items.len() != ra.len() {
            return Outcome::violation(format!("call {}: {} elements, JSON array has {}", ci, ra.len(), items.len()));
        }
        // (4) faithfulness
        for (i, (el, j)) in ra.iter().zip(items.iter()).enumerate() {
            let e = expected(el, &mut notes);
            if let Err(m) = cmp(&format!("call{}[{}]", ci, i), &e, j) {
                return Outcome::violation(m);
            }
            let single = match serde_json::to_string(el) {
                Ok(t) => t,
                Err(e) => return Outcome::violation(format!("call {} element {}: to_string fails: {}", ci, i, e)),
            };
            match json::parse(&single) {
                Ok(t) if &t == j => {}
                Ok(_) => return Outcome::violation(format!("call {} element {}: serialised alone it differs from its form inside the vector", ci, i)),
                Err(e) => return Outcome::violation(format!("call {} element {}: not well-formed alone: {}", ci, i, e)),
            }
            if el.is_error() {
                o.nontrivial = true;
                o.label("error-element");
            }
        }
    }
    if notes.big_u128 {
        o.nontrivial = true;
        o.label("u128>=2^64");
    }
    if notes.nonfinite {
        o.nontrivial = true;
        o.label("non-finite-float->null");
    }
    if notes.escapes {
        o.nontrivial = true;
        o.label("string-with-escapes-or-U+FFFD");
    }
    if notes.data_records >= 2 {
        o.nontrivial = true;
        o.label("data-records>=2");
    }
    for (ci, res, text) in &kept {
        match serde_json::to_string(res) {
            Ok(t) if &t == text => {
                o.label("serialised-again-after-later-calls");
            }
            _ => return Outcome::violation(format!("call {}: the result serialises differently after later calls than right after its own call", ci)),
        }
    }
    o
}

pub fn run(ctx: &Ctx) {
    ctx.replay_findings(&oracle);
    let c = StreamCfg {
        mix: Mix { fixed: 1, v9: 4, ipfix: 4 },
        ids: (2, 4),
        max_fields: 14,
        calls: (1, 3),
        pkts_per_call: (1, 3),
        max_sets: 4,
        max_recs: 5,
        mixed_kinds: false,
    };
    ctx.search("conformant-wide", ctx.n(80_000, 8_000_000), &move || gen::conformant_case(c, BuildOpts::WIDE), &oracle);
    ctx.search("hostile", ctx.n(80_000, 8_000_000), &gen::hostile_case, &oracle);
    let mut b = gen::boundary_count_cases(crate::wire::Proto::V9);
    b.extend(gen::boundary_count_cases(crate::wire::Proto::Ipfix));
    ctx.enumerate("boundary-counts", b, false, &oracle);
}
