//! C07 - data for an unknown template is never turned into flow records.

use super::conf::{cache_diff, cmp_ipfix, cmp_v9, Flow};
use super::PropDef;
use crate::engine::{Call, Case, Ctx, Outcome};
use crate::gen::{self, BuildOpts, Mix};
use crate::obs;
use crate::refdec::{dec_fixed, dec_ipfix_opts, dec_v9, RefBody, RefPkt};
use crate::wire::*;
use netflow_parser::variable_versions::{ipfix, v9};
use netflow_parser::NetflowPacket;
use proptest::prelude::*;

pub const DEF: PropDef = PropDef {
    id: "C07",
    run,
    oracle,
    rule: "cases = conformant histories (C04/C05 plans, V9 count = flowsets, 1..3 packets per call) in which the template of one (protocol, id) X is withheld: every template record for X is removed while its data sets are still encoded under X's first definition, at whatever position the plan puts them (first/middle/last flowset of a packet, first/middle/last packet of a buffer, with template flowsets for other ids around); ids are shared between V9 and IPFIX so X is usually defined for the other protocol. Then: the template is fed to a second parser instance only, the data packet is replayed to the first parser (still unknown there; in one case out of six it is replayed 2..6 times, in one out of fifty 70..300 times in a row - a lost template packet), the template is finally fed to the first parser and the same data bytes are replayed again; in one case out of four the template is then removed from the parser's public cache maps (the documented way for an application to drop templates) and the data is replayed a last time - unknown again. Oracle per call: reference decode under the per-parser model; a V9 packet containing data for an id absent from that parser's model must be the final Error element (the templates of complete flowsets before it are learned, nothing else); an IPFIX message must be reported without any set of that id - either the library's documented behaviour (decoding of the message stops there) or skipping just that set is accepted, the cache model follows whichever was observed; caches equal the model after every call; all other packets and sets must equal the reference decode; after delivery of the template the replayed bytes must decode to exactly the reference records. non-trivial = an unknown-id flowset occurred and (an earlier packet precedes it in the buffer, or X exists in the other protocol / other parser, or the template arrived later and the data was replayed and decoded); distinct by digest.",
    assumptions: &["for IPFIX both 'stop at the undecodable set' (current, documented in the property's anchors) and 'skip only that set' are accepted as omitting the set"],
};

#[derive(Default)]
struct Feat {
    unknown_seen: bool,
    earlier_packet: bool,
    other_proto: bool,
    other_parser: bool,
    replay_decoded: bool,
}

fn strip_unknown(r: &RefPkt) -> RefPkt {
    let mut x = r.clone();
    x.sets.retain(|s| !matches!(s.body, RefBody::UnknownTemplate));
    x
}

pub fn oracle(case: &Case) -> Outcome {
    let mut o = Outcome::pass();
    let n = case.n_parsers();
    let mut parsers: Vec<_> = (0..n).map(|i| obs::new_parser(&case.allowed_of(i))).collect();
    let mut models: Vec<Cache> = vec![Cache::default(); n];
    let mut feat = Feat::default();
    // set when the library (legitimately, see DEF.assumptions) did not learn a template that
    // sits behind an unknown set in the same IPFIX message: data encoded for that template
    // later in the stream has no conformant reading any more, the case ends there
    let mut diverged = false;
    // (proto, id) -> bytes of an atom that carried unknown data for it on parser 0
    let mut pending: Vec<(Proto, u16, Vec<u8>)> = vec![];
    for (ci, c) in case.calls.iter().enumerate() {
        if case.params.get("forget_before_call") == Some(&(ci as i64)) {
            // the application drops template X through the documented public cache fields:
            // from here on the parser holds no template for X again
            let id = case.param("forget_id") as u16;
            let p0 = &mut parsers[0];
            if case.param("forget_proto") == 9 {
                p0.v9_parser.templates.remove(&id);
                p0.v9_parser.options_templates.remove(&id);
                models[0].v9.remove(&id);
            } else {
                p0.ipfix_parser.templates.remove(&id);
                p0.ipfix_parser.options_templates.remove(&id);
                models[0].ipfix.remove(&id);
            }
            o.label("template-removed-through-the-public-cache-fields");
        }
        let buf = c.buf();
        let res = parsers[c.parser].parse_bytes(&buf);
        let pi = c.parser;
        let mut i = 0usize;
        let mut terminal = false;
        for (ai, a) in c.packets.iter().enumerate() {
            if terminal {
                break;
            }
            if a.len() < 2 {
                return Outcome::harness("HARNESS: short atom");
            }
            let v = be16(a, 0);
            let at = |m: String| format!("call {} (parser {}) atom {} (version {}): {}", ci, pi, ai, v, m);
            match v {
                5 | 7 => {
                    if dec_fixed(a).is_none() {
                        return Outcome::harness("HARNESS: truncated fixed packet in C07 stream");
                    }
                    if res.get(i).and_then(obs::version_of) != Some(v) {
                        return Outcome::violation(at("V5/V7 packet not reported".into()));
                    }
                    i += 1;
                }
                9 => {
                    let mut trial = models[pi].clone();
                    let r = match dec_v9(a, &mut trial) {
                        Ok(r) if r.len == a.len() => r,
                        Ok(_) => return Outcome::harness("HARNESS: V9 atom longer than its packet"),
                        Err(_) if diverged => return finish(o, &feat, true),
                        Err(e) => return Outcome::harness(format!("HARNESS: V9 atom not conformant: {}", e.0)),
                    };
                    if let Some(k) = r.sets.iter().position(|s| matches!(s.body, RefBody::UnknownTemplate)) {
                        let id = r.sets[k].id;
                        feat.unknown_seen = true;
                        o.label(format!("v9:unknown-flowset-{}", if k == 0 { "first" } else if k + 1 == r.sets.len() { "last" } else { "middle" }));
                        o.label(format!("unknown-packet-{}-in-buffer", if ai == 0 { "first" } else if ai + 1 == c.packets.len() { "last" } else { "middle" }));
                        if ai > 0 {
                            feat.earlier_packet = true;
                        }
                        note_elsewhere(&mut feat, &mut o, Proto::V9, id, &models, pi);
                        match res.get(i) {
                            Some(NetflowPacket::Error(_)) if i + 1 == res.len() => {}
                            Some(NetflowPacket::V9(lv)) => {
                                let fabricated = lv.flowsets.iter().any(|f| {
                                    f.header.flowset_id == id && matches!(f.body, v9::FlowSetBody::Data(_) | v9::FlowSetBody::OptionsData(_))
                                });
                                return Outcome::violation(at(format!(
                                    "V9 packet with data for template {} unknown to this parser is reported as a packet{}",
                                    id,
                                    if fabricated { " WITH decoded records for that id" } else { "" }
                                )));
                            }
                            other => {
                                return Outcome::violation(at(format!(
                                    "V9 packet with data for unknown template {} must be the final error element, got {:?} at position {} of {}",
                                    id,
                                    other.map(obs::version_of),
                                    i,
                                    res.len()
                                )))
                            }
                        }
                        if ai + 1 < c.packets.len() || r.sets[k + 1..].iter().any(|s| matches!(s.body, RefBody::Templates { .. })) {
                            // templates behind the failing flowset (or in packets swallowed by
                            // the error element) are, correctly, not learned
                            diverged = true;
                            o.label("v9:templates-behind-failing-flowset-not-learned");
                        }
                        // learn what the complete flowsets in front of it teach
                        let mut pre = a[..r.sets[k].off].to_vec();
                        pre[2..4].copy_from_slice(&(k as u16).to_be_bytes());
                        if dec_v9(&pre, &mut models[pi]).is_err() {
                            return Outcome::harness("HARNESS: prefix decode failed");
                        }
                        if pi == 0 {
                            pending.push((Proto::V9, id, a.clone()));
                        }
                        i += 1;
                        terminal = true;
                        continue;
                    }
                    let Some(NetflowPacket::V9(lv)) = res.get(i) else {
                        return Outcome::violation(at(format!("decodable V9 packet reported as {:?}", res.get(i).map(obs::version_of))));
                    };
                    if let Some(pos) = pending.iter().position(|(p, id, bytes)| *p == Proto::V9 && pi == 0 && bytes == a && models[pi].v9.contains_key(id)) {
                        feat.replay_decoded = true;
                        o.label("v9:replayed-data-decodes-after-template-arrived");
                        pending.remove(pos);
                    }
                    models[pi] = trial;
                    match cmp_v9(&mut o, lv, &r) {
                        Ok(Flow::Continue) => {}
                        Ok(Flow::Tainted) => return Outcome::harness("HARNESS: taint in C07"),
                        Err(m) => return Outcome::violation(at(m)),
                    }
                    i += 1;
                    if r.header[0] as usize != r.sets.len() {
                        terminal = true;
                    }
                }
                10 => {
                    let mut t_full = models[pi].clone();
                    let full = match dec_ipfix_opts(a, &mut t_full, false) {
                        Ok(r) if r.len == a.len() => r,
                        Ok(_) => return Outcome::harness("HARNESS: IPFIX atom longer than its message"),
                        Err(_) if diverged => return finish(o, &feat, true),
                        Err(e) => return Outcome::harness(format!("HARNESS: IPFIX atom not conformant: {}", e.0)),
                    };
                    let Some(NetflowPacket::IPFix(lm)) = res.get(i) else {
                        return Outcome::violation(at(format!("IPFIX message reported as {:?}", res.get(i).map(obs::version_of))));
                    };
                    match full.sets.iter().position(|s| matches!(s.body, RefBody::UnknownTemplate)) {
                        None => {
                            if let Some(pos) = pending.iter().position(|(p, id, bytes)| *p == Proto::Ipfix && pi == 0 && bytes == a && models[pi].ipfix.contains_key(id)) {
                                feat.replay_decoded = true;
                                o.label("ipfix:replayed-data-decodes-after-template-arrived");
                                pending.remove(pos);
                            }
                            models[pi] = t_full;
                            match cmp_ipfix(&mut o, lm, &full, a) {
                                Ok(Flow::Continue) => {}
                                Ok(Flow::Tainted) => return Outcome::harness("HARNESS: taint in C07"),
                                Err(m) => return Outcome::violation(at(m)),
                            }
                        }
                        Some(k) => {
                            let id = full.sets[k].id;
                            feat.unknown_seen = true;
                            o.label(format!("ipfix:unknown-set-{}", if k == 0 { "first" } else if k + 1 == full.sets.len() { "last" } else { "middle" }));
                            o.label(format!("unknown-packet-{}-in-buffer", if ai == 0 { "first" } else if ai + 1 == c.packets.len() { "last" } else { "middle" }));
                            if ai > 0 {
                                feat.earlier_packet = true;
                            }
                            note_elsewhere(&mut feat, &mut o, Proto::Ipfix, id, &models, pi);
                            // never any set with that id
                            let unknown_ids: Vec<u16> = full.sets.iter().filter(|s| matches!(s.body, RefBody::UnknownTemplate)).map(|s| s.id).collect();
                            if let Some(f) = lm.flowsets.iter().find(|f| {
                                unknown_ids.contains(&f.header.header_id) && matches!(f.body, ipfix::FlowSetBody::Data(_) | ipfix::FlowSetBody::OptionsData(_))
                            }) {
                                return Outcome::violation(at(format!(
                                    "data set for id {} is reported with decoded records although this parser holds no IPFIX template of that id",
                                    f.header.header_id
                                )));
                            }
                            if lm.flowsets.len() == k {
                                // decoding stopped at the unknown set
                                let mut t_stop = models[pi].clone();
                                let stop = dec_ipfix_opts(a, &mut t_stop, true).unwrap();
                                if t_stop != t_full {
                                    diverged = true;
                                    o.label("ipfix:template-behind-unknown-set-not-learned");
                                }
                                models[pi] = t_stop;
                                // cmp_ipfix flags "sets after undecodable dropped" as finding D9 of
                                // C05; here stopping is an accepted way of omitting the set
                                let mut scratch = Outcome::pass();
                                match cmp_ipfix(&mut scratch, lm, &stop, a) {
                                    Ok(_) => {}
                                    Err(m) => return Outcome::violation(at(m)),
                                }
                                o.label("ipfix:message-stops-at-unknown-set");
                            } else {
                                let skip = strip_unknown(&full);
                                models[pi] = t_full;
                                let mut scratch = Outcome::pass();
                                match cmp_ipfix(&mut scratch, lm, &skip, a) {
                                    Ok(_) => {}
                                    Err(m) => return Outcome::violation(at(format!("(sets other than the unknown one) {}", m))),
                                }
                                o.label("ipfix:unknown-set-skipped");
                            }
                            if pi == 0 {
                                pending.push((Proto::Ipfix, id, a.clone()));
                            }
                        }
                    }
                    i += 1;
                }
                _ => return Outcome::harness("HARNESS: unexpected version in C07 stream"),
            }
        }
        if i != res.len() {
            return Outcome::violation(format!("call {}: {} elements expected, {} reported", ci, i, res.len()));
        }
        for p in 0..n {
            if let Some(d) = cache_diff(&parsers[p], &models[p]) {
                return Outcome::violation(format!("after call {} (fed to parser {}), parser {}: {}", ci, pi, p, d));
            }
        }
    }
    finish(o, &feat, false)
}

fn finish(mut o: Outcome, feat: &Feat, early: bool) -> Outcome {
    // how many records an options data flowset yields is C04's subject (finding D6)
    o.known.retain(|k| k != super::conf::SIG_V9_OPTDATA);
    if early {
        o.label("ended-early:data-for-a-template-the-library-did-not-learn");
    }
    o.nontrivial = feat.unknown_seen && (feat.earlier_packet || feat.other_proto || feat.other_parser || feat.replay_decoded);
    o
}

fn note_elsewhere(feat: &mut Feat, o: &mut Outcome, proto: Proto, id: u16, models: &[Cache], pi: usize) {
    let other = if proto == Proto::V9 { Proto::Ipfix } else { Proto::V9 };
    if models[pi].map(other).contains_key(&id) {
        feat.other_proto = true;
        o.label("id-known-for-the-other-protocol-only");
    }
    for (k, m) in models.iter().enumerate() {
        if k != pi && m.map(proto).contains_key(&id) {
            feat.other_parser = true;
            o.label("id-known-to-the-other-parser-only");
        }
    }
}

pub fn c07_case() -> BoxedStrategy<Case> {
    let mix = Mix { fixed: 1, v9: 4, ipfix: 4 };
    let call = proptest::collection::vec(gen::pkt_plan(mix, 4, 3), 1..=3);
    (
        gen::pool(2..=3, 5, false),
        proptest::collection::vec(call, 1..=4),
        any::<bool>(),
        any::<u8>(),
        proptest::collection::vec(gen::entropy(), 0..=3),
        any::<u8>(),
        any::<u8>(),
        prop_oneof![
            40 => Just(0usize),
            8 => 1usize..6,
            1 => prop_oneof![Just(70usize), Just(130), Just(300)],
        ],
    )
        .prop_map(|(pool, calls, is_v9, sel, recs, where_call, where_atom, extra)| assemble(pool, calls, is_v9, sel, recs, where_call, where_atom, extra))
        .boxed()
}

/// build a C07 case from its ingredients (shared by the proptest strategy and the fuzz target)
pub fn assemble(
    pool: gen::Pool,
    calls: Vec<Vec<gen::PktPlan>>,
    is_v9: bool,
    sel: u8,
    recs: Vec<Vec<u8>>,
    where_call: u8,
    where_atom: u8,
    extra_unknown: usize,
) -> Case {
    {
        {
            let proto = if is_v9 { Proto::V9 } else { Proto::Ipfix };
            let opts = BuildOpts { count_by_flowsets: true, withhold: Some((proto, sel)), ..BuildOpts::STRICT };
            let plan = gen::StreamPlan { pool: pool.clone(), calls };
            let b = gen::build(&plan, &opts);
            let mut out: Vec<Call> = b.calls;
            // a packet that certainly carries data for X, inserted somewhere
            let dplan = gen::StreamPlan {
                pool: pool.clone(),
                calls: vec![vec![if is_v9 {
                    gen::PktPlan::V9 { hdr: [7, 7, 7, 7], sets: vec![gen::SetPlan::Data(sel, recs.clone(), 0)] }
                } else {
                    gen::PktPlan::Ipfix { hdr: [7, 7, 7], sets: vec![gen::SetPlan::Data(sel, recs.clone(), 0)] }
                }]],
            };
            let idx = (sel as usize * pool.ids.len()) >> 8;
            let id = pool.ids[idx];
            // no record entropy: the data set for X is nothing but its 4-byte header (it
            // still references a template the parser does not hold)
            let header_only = recs.is_empty();
            let dpk = if header_only {
                let mut w = W::default();
                if is_v9 {
                    enc_v9_header(&mut w, 1, &[7, 7, 7, 7]);
                } else {
                    enc_ipfix_header(&mut w, 20, &[7, 7, 7]);
                }
                enc_set(&mut w, id, &[], 0);
                w.0
            } else {
                gen::build(&dplan, &opts).calls.remove(0).packets.remove(0)
            };
            let def = if is_v9 { pool.v9[idx][0].clone() } else { pool.ipfix[idx][0].clone() };
            let has_data = dpk.len() > if is_v9 { 20 } else { 16 };
            if has_data {
                let ci = (where_call as usize * out.len()) >> 8;
                let ai = (where_atom as usize * (out[ci].packets.len() + 1)) >> 8;
                out[ci].packets.insert(ai, dpk.clone());
            }
            // the withheld template, as its own packet
            let mut rec = W::default();
            enc_template_record(&mut rec, proto, id, &def);
            let mut set = W::default();
            enc_set(&mut set, template_set_id(proto, def.kind), &rec.0, 0);
            let mut tp = W::default();
            if is_v9 {
                enc_v9_header(&mut tp, 1, &[9, 9, 9, 9]);
            } else {
                enc_ipfix_header(&mut tp, (16 + set.0.len()) as u16, &[9, 9, 9]);
            }
            tp.bytes(&set.0);
            if has_data {
                out.push(Call { parser: 1, packets: vec![tp.0.clone()] });
                // the data keeps arriving while its template is missing (a lost template
                // packet): every one of these calls must leave the caches as they are
                for _ in 0..extra_unknown {
                    out.push(Call { parser: 0, packets: vec![dpk.clone()] });
                }
                out.push(Call { parser: 0, packets: vec![dpk.clone()] });
                let mut params: std::collections::BTreeMap<String, i64> = Default::default();
                if !header_only {
                    // (a data set without records has no conformant reading once X is known)
                    out.push(Call { parser: 0, packets: vec![tp.0] });
                    out.push(Call { parser: 0, packets: vec![dpk.clone()] });
                    if where_atom % 4 == 0 {
                        // ... and finally the application removes X from the public cache maps
                        // and the data arrives once more: unknown again
                        params.insert("forget_before_call".into(), out.len() as i64);
                        params.insert("forget_id".into(), id as i64);
                        params.insert("forget_proto".into(), if is_v9 { 9 } else { 10 });
                        out.push(Call { parser: 0, packets: vec![dpk] });
                    }
                }
                return Case { allowed: vec![crate::engine::DEFAULT_ALLOWED.to_vec(); 2], calls: out, params };
            }
            Case { allowed: vec![crate::engine::DEFAULT_ALLOWED.to_vec(); 2], calls: out, params: Default::default() }
        }
    }
}

pub fn run(ctx: &Ctx) {
    ctx.replay_findings(&oracle);
    ctx.search("withheld-template-histories", ctx.n(400_000, 30_000_000), &c07_case, &oracle);
}
