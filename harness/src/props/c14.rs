//! C14 - a truncated packet is reported as an error, never as a shorter valid one.

use super::PropDef;
use crate::engine::{Case, Ctx, Outcome};
use crate::gen::{self, BuildOpts, Mix};
use crate::obs;
use crate::refdec::dec_v9;
use crate::wire::*;
use netflow_parser::NetflowPacket;
use proptest::prelude::*;
use std::sync::atomic::{AtomicU64, Ordering};

pub const DEF: PropDef = PropDef {
    id: "C14",
    run,
    oracle,
    rule: "cases = a valid packet of any version produced by the conformant generators (V5/V7 with 0..6 records, V9 with count = flowsets, IPFIX; templates pre-loaded by 0..2 earlier calls; 16..~1500 bytes, thorough: several KiB), placed last in a buffer after 0..2 other valid packets. For each case the oracle enumerates EVERY cut point strictly inside the packet (for V9 all except flowset boundaries and the end of the header, as the statement says) - the per-case enumeration is exhaustive, the number of cuts executed is reported as cuts_executed. Per cut: the result must be the elements of the preceding packets exactly as when parsed without the truncated tail (Debug equality against a twin parser that was fed the same earlier calls) followed by exactly one Error whose remaining bytes are the truncated packet; caches must equal the twin's (V5/V7/IPFIX), or the twin's plus the complete template records of the complete flowsets in front of the cut (V9; independent reference decode). non-trivial = the packet has >= 2 records (V5/V7) / >= 2 sets (V9/IPFIX) so that cuts fall behind a complete record/set; distinct by digest.",
    assumptions: &["V9 cut points on flowset boundaries are excluded by the statement itself (they yield a shorter valid packet)"],
};

pub static CUTS: AtomicU64 = AtomicU64::new(0);

fn model_from_lib(p: &netflow_parser::NetflowParser) -> Cache {
    let mut c = Cache::default();
    for ((proto, _k, id), d) in obs::lib_cache(p) {
        c.map_mut(proto).insert(id, d);
    }
    c
}

pub fn oracle(case: &Case) -> Outcome {
    let mut o = Outcome::pass();
    let Some((last, pre)) = case.calls.split_last() else { return o };
    let Some((target, prefix_atoms)) = last.packets.split_last() else { return o };
    if target.len() < 4 {
        return o;
    }
    let allowed = case.allowed_of(0);
    // a parser in the state after the earlier calls: always built by replaying them (copying
    // the public cache maps would miss any private state a correct implementation may keep)
    let pre_bufs: Vec<Vec<u8>> = pre.iter().map(|c| c.buf()).collect();
    let replayed = || {
        let mut p = obs::new_parser(&allowed);
        for b in &pre_bufs {
            p.parse_bytes(b);
        }
        p
    };
    let prefix: Vec<u8> = prefix_atoms.concat();
    // sanity: the complete buffer parses without error (generator self-check)
    {
        let mut t = replayed();
        let mut full = prefix.clone();
        full.extend_from_slice(target);
        let r = t.parse_bytes(&full);
        if r.iter().any(|e| e.is_error()) || r.len() != prefix_atoms.len() + 1 {
            return Outcome::harness("HARNESS: the untruncated buffer does not parse cleanly");
        }
    }
    // twin: prefix only
    let mut twin = replayed();
    let want: Vec<String> = twin.parse_bytes(&prefix).iter().map(obs::render).collect();
    let twin_model = model_from_lib(&twin);
    let version = be16(target, 0);
    // V9 flowset boundaries
    let mut boundaries = vec![];
    if version == 9 {
        let mut p = 20;
        boundaries.push(20);
        while p + 4 <= target.len() {
            p += (be16(target, p + 2) as usize).max(4);
            boundaries.push(p);
        }
    }
    let mut n_cuts = 0u64;
    for cut in 1..target.len() {
        if version == 9 && boundaries.contains(&cut) {
            continue;
        }
        n_cuts += 1;
        let mut p = replayed();
        let mut buf = prefix.clone();
        buf.extend_from_slice(&target[..cut]);
        let res = p.parse_bytes(&buf);
        let at = format!("V{} packet of {} bytes cut at {} (after {} prefix bytes)", version, target.len(), cut, prefix.len());
        if res.len() != want.len() + 1 {
            let extra: Vec<String> = res.iter().skip(want.len()).map(|e| format!("{:?}", obs::version_of(e))).collect();
            return Outcome::violation(format!(
                "{}: {} elements returned, expected the {} preceding packets plus one error (tail elements: {:?})",
                at,
                res.len(),
                want.len(),
                extra
            ));
        }
        for (k, w) in want.iter().enumerate() {
            if &obs::render(&res[k]) != w {
                return Outcome::violation(format!("{}: preceding packet {} is reported differently than without the truncated tail", at, k));
            }
        }
        match res.last() {
            Some(NetflowPacket::Error(e)) => {
                if e.remaining != target[..cut] {
                    return Outcome::violation(format!("{}: error.remaining ({} bytes) is not the truncated packet", at, e.remaining.len()));
                }
            }
            Some(other) => {
                return Outcome::violation(format!(
                    "{}: the truncated packet is reported as a {:?} element instead of an error",
                    at,
                    obs::version_of(other)
                ))
            }
            None => return Outcome::violation(format!("{}: nothing reported", at)),
        }
        // caches
        let mut model = twin_model.clone();
        if version == 9 && cut > 20 {
            // complete flowsets in front of the cut
            let end = *boundaries.iter().filter(|b| **b <= cut).max().unwrap_or(&20);
            if end > 20 {
                let mut pre = target[..end].to_vec();
                let n = boundaries.iter().filter(|b| **b <= end && **b > 20).count() as u16;
                pre[2..4].copy_from_slice(&n.to_be_bytes());
                if dec_v9(&pre, &mut model).is_err() {
                    return Outcome::harness("HARNESS: complete prefix of the V9 packet is not conformant");
                }
            }
        }
        if let Some(d) = super::conf::cache_diff(&p, &model) {
            return Outcome::violation(format!("{}: caches changed by the truncated packet: {}", at, d));
        }
    }
    CUTS.fetch_add(n_cuts, Ordering::Relaxed);
    o.label(format!("v{}", version));
    o.label(format!("prefix-packets={}", prefix_atoms.len()));
    if !pre.is_empty() {
        o.label("templates-from-earlier-call");
    }
    let multi = match version {
        5 | 7 => be16(target, 2) >= 2,
        9 => boundaries.len() >= 3,
        _ => {
            let mut p = 16;
            let mut n = 0;
            while p + 4 <= target.len() {
                p += (be16(target, p + 2) as usize).max(4);
                n += 1;
            }
            n >= 2
        }
    };
    o.nontrivial = multi;
    o
}

pub fn c14_case(max_recs: usize, max_sets: usize) -> BoxedStrategy<Case> {
    let mix = Mix { fixed: 2, v9: 3, ipfix: 3 };
    let pk = gen::pkt_plan(mix, max_sets, max_recs);
    let pre = proptest::collection::vec(proptest::collection::vec(pk.clone(), 1..=2), 0..=2);
    let last = proptest::collection::vec(pk, 1..=3);
    (gen::pool(2..=3, 6, false), pre, last)
        .prop_map(|(pool, mut calls, last)| {
            calls.push(last);
            let plan = gen::StreamPlan { pool, calls };
            let b = gen::build(&plan, &BuildOpts { count_by_flowsets: true, ..BuildOpts::STRICT });
            Case { calls: b.calls, ..Case::single(vec![]) }
        })
        .boxed()
}

pub fn run(ctx: &Ctx) {
    ctx.replay_findings(&oracle);
    ctx.search("every-cut-of-small-packets", ctx.n(8_000, 600_000), &|| c14_case(3, 3), &oracle);
    ctx.search("every-cut-of-larger-packets", ctx.n(400, 40_000), &|| c14_case(12, 6), &oracle);
    ctx.put_extra("cuts_executed", serde_json::json!(CUTS.load(Ordering::Relaxed)));
}
