//! C09 / C10 - re-exporting a decoded V9 packet / IPFIX message reproduces its bytes.
//!
//! Primary oracle: `to_be_bytes()` is `Ok` and equals the element's span of the input.
//! Attribution: the harness predicts the export from the *input bytes*, substituting the
//! library's own field export only where an open finding explains a lossy value kind; the
//! library's export must equal that prediction byte for byte, so anything a finding does
//! not explain (missing padding, swapped header fields, lost widths ...) is a violation.

use super::PropDef;
use crate::engine::{Case, Ctx, Outcome};
use crate::gen::{self, BuildOpts, Mix, StreamCfg};
use crate::obs::{self, decompose};
use crate::wire::*;
use netflow_parser::variable_versions::data_number::{DataNumber, FieldValue};
use netflow_parser::variable_versions::{ipfix, v9};
use netflow_parser::NetflowPacket;
use std::collections::{BTreeMap, HashSet};

pub const C09: PropDef = PropDef {
    id: "C09",
    run: run_c09,
    oracle: oracle_c09,
    rule: "cases = (a) conformant V9 histories (C04's generator) in a strict mode that uses only losslessly re-exportable value kinds (unsigned 1/2/3/4/8/16, IPv4, IPv6, octet arrays, unknown fields, valid UTF-8 strings, protocol numbers with a named variant) and in a wide mode with every kind; (b) hostile histories of C01/C02 that still yield V9 elements. Oracle: for every V9 element, to_be_bytes() must be Ok and equal the element's input span (span from the C02 decomposition). Attribution for wide/hostile cases: the export is predicted from the input bytes flowset by flowset and field by field (widths of the template cached at that moment); for value kinds named by an open finding (Duration, MAC, non-UTF-8 string, protocol number without variant) the prediction is the exact lossy form the finding describes (4-byte whole seconds, 17-character text, lossy UTF-8 conversion, 255), computed from the input bytes; the export must equal the prediction exactly. Strict cases must hit no finding at all. Every element is exported a second time after the rest of the history has been parsed: same bytes. non-trivial = the element has >= 1 data flowset with >= 1 record; distinct by digest.",
    assumptions: &["spans come from the C02 decomposition", "the template in effect for a data flowset is reconstructed from the template records the library itself reported (and its cache before the call)"],
};

pub const C10: PropDef = PropDef {
    id: "C10",
    run: run_c10,
    oracle: oracle_c10,
    rule: "cases = (a) conformant IPFIX histories (C05's generator) in a strict mode (fixed-length lossless value kinds, enterprise elements included, one template record per set) and a wide mode (variable-length, durations, MACs, signed, arbitrary strings); (b) hostile histories that still yield IPFIX elements with header.length >= 16. Oracle: to_be_bytes() must be Ok and equal the header.length bytes of the message. Attribution as for C09, with the additional findings variable-length prefix, signed integers of width != 4, and bytes of sets the library did not decode. Strict cases must hit no finding. non-trivial = the message has >= 1 data set with >= 1 record; distinct by digest.",
    assumptions: &["spans come from the C02 decomposition", "the template in effect for a data set is reconstructed from the template records the library itself reported (and its cache before the call)"],
};

type Shadow = BTreeMap<(Proto, u16), Def>;

fn shadow_from_lib(p: &netflow_parser::NetflowParser) -> Shadow {
    let mut s = Shadow::new();
    let lc = obs::lib_cache(p);
    // insertion order mirrors the library's lookup precedence when an id is in both maps
    for ((proto, kind, id), d) in &lc {
        let wins = match (proto, kind) {
            (Proto::V9, Kind::Options) | (Proto::Ipfix, Kind::Plain) => true,
            _ => !lc.contains_key(&(*proto, if *kind == Kind::Plain { Kind::Options } else { Kind::Plain }, *id)),
        };
        if wins {
            s.insert((*proto, *id), d.clone());
        }
    }
    s
}

/// number of input bytes the library consumes for a value of this kind
fn consumed(v: &FieldValue, declared: usize) -> usize {
    match v {
        FieldValue::Ip4Addr(_) => 4,
        FieldValue::Ip6Addr(_) => 16,
        FieldValue::MacAddr(_) => 6,
        FieldValue::Float64(_) => 8,
        FieldValue::ProtocolType(_) => 1,
        _ => declared,
    }
}

/// Predict the export of one field from its input bytes. `Ok(bytes)`; finding signatures
/// are pushed to `o`. `inp` = the bytes the field occupied in the input (value only).
fn predict_field(o: &mut Outcome, proto: &str, v: &FieldValue, inp: &[u8]) -> Result<Vec<u8>, String> {
    let own = v.to_be_bytes();
    if let Ok(b) = &own {
        if b == inp {
            return Ok(inp.to_vec());
        }
    }
    let sig = match v {
        FieldValue::Duration(_) => Some(format!("{}:export:Duration", proto)),
        FieldValue::MacAddr(_) => Some(format!("{}:export:MacAddr", proto)),
        FieldValue::String(_) if std::str::from_utf8(inp).is_err() => Some(format!("{}:export:String:non-utf8", proto)),
        FieldValue::ProtocolType(_) if inp.len() == 1 && (145..=254).contains(&inp[0]) => {
            Some(format!("{}:export:ProtocolType:no-variant", proto))
        }
        FieldValue::DataNumber(DataNumber::I32(_)) if inp.len() != 4 => Some(format!("{}:export:Signed:w{}", proto, inp.len())),
        _ => None,
    };
    match sig {
        Some(s) => {
            // a listed finding forgives exactly the lossy export it describes, computed here
            // from the input bytes - not whatever the library writes for that value kind
            let listed: Result<Vec<u8>, ()> = match v {
                // durations are written as 4-byte whole seconds (an error beyond u32)
                FieldValue::Duration(d) => u32::try_from(d.as_secs()).map(|x| x.to_be_bytes().to_vec()).map_err(|_| ()),
                // MAC addresses are written as their 17-character text form
                FieldValue::MacAddr(_) => Ok(inp.iter().map(|b| format!("{:02X}", b)).collect::<Vec<_>>().join(":").into_bytes()),
                // invalid UTF-8 is written after lossy conversion
                FieldValue::String(_) => Ok(String::from_utf8_lossy(inp).as_bytes().to_vec()),
                // protocol numbers without a variant are written as 255
                FieldValue::ProtocolType(_) => Ok(vec![255]),
                // signed integers are held as i32 and written in 4 bytes
                FieldValue::DataNumber(DataNumber::I32(_)) => Ok(match inp.len() {
                    1 => i32::from(inp[0] as i8).to_be_bytes().to_vec(),
                    2 => i32::from(i16::from_be_bytes([inp[0], inp[1]])).to_be_bytes().to_vec(),
                    n if n >= 4 => inp[n - 4..].to_vec(),
                    _ => inp.to_vec(),
                }),
                _ => Err(()),
            };
            match (own, listed) {
                (Ok(b), Ok(l)) if b == l => {
                    o.hit(s);
                    Ok(b)
                }
                (Err(_), Err(())) => {
                    o.hit(s);
                    Err("EXPORT-ERR".into())
                }
                (own, listed) => Err(format!(
                    "value {:?} decoded from input bytes {} re-exports as {:?}; the listed finding {} only explains {:?}",
                    v,
                    hex(&inp[..inp.len().min(32)]),
                    own.map(|b| hex(&b[..b.len().min(32)])).map_err(|e| e.to_string()),
                    s,
                    listed.map(|b| hex(&b[..b.len().min(32)]))
                )),
            }
        }
        None => Err(format!(
            "value {:?} decoded from input bytes {} re-exports as {:?}",
            v,
            hex(&inp[..inp.len().min(32)]),
            own.map(|b| hex(&b[..b.len().min(32)]))
        )),
    }
}

fn v9_template_defs(t: &v9::FlowSetBody) -> Vec<(u16, Def)> {
    match t {
        v9::FlowSetBody::Template(ts) => ts.templates.iter().map(|t| (t.template_id, obs::def_of_v9_template(t))).collect(),
        v9::FlowSetBody::OptionsTemplate(ts) => ts.templates.iter().map(|t| (t.template_id, obs::def_of_v9_options(t))).collect(),
        _ => vec![],
    }
}

/// returns Ok(Some(prediction)) or Ok(None) when the export is predicted to fail
fn predict_v9(o: &mut Outcome, p: &v9::V9, inp: &[u8], shadow: &mut Shadow) -> Result<Option<Vec<u8>>, String> {
    let mut out = inp[..20].to_vec();
    let mut off = 20usize;
    let mut fails = false;
    for (si, fs) in p.flowsets.iter().enumerate() {
        let len = (fs.header.length as usize).max(4);
        let set = &inp[off..off + len];
        out.extend_from_slice(&set[..4]);
        let body = &set[4..];
        match &fs.body {
            v9::FlowSetBody::Template(_) | v9::FlowSetBody::OptionsTemplate(_) => {
                for (id, d) in v9_template_defs(&fs.body) {
                    shadow.insert((Proto::V9, id), d);
                }
                out.extend_from_slice(body);
            }
            v9::FlowSetBody::OptionsData(_) => out.extend_from_slice(body),
            v9::FlowSetBody::Data(d) => {
                let Some(def) = shadow.get(&(Proto::V9, fs.header.flowset_id)).cloned() else {
                    return Err(format!("flowset {}: no template known for data id {}", si, fs.header.flowset_id));
                };
                let mut p = 0usize;
                for rec in &d.fields {
                    for (fi, (_, v)) in rec.iter() {
                        let Some(f) = def.fields.get(*fi) else {
                            return Err(format!("flowset {}: record has field index {} beyond the template", si, fi));
                        };
                        let n = consumed(v, f.len as usize);
                        if p + n > body.len() {
                            return Err(format!("flowset {}: decoded records exceed the flowset body", si));
                        }
                        match predict_field(o, "v9", v, &body[p..p + n]) {
                            Ok(b) => out.extend_from_slice(&b),
                            Err(e) if e == "EXPORT-ERR" => fails = true,
                            Err(e) => return Err(format!("flowset {} field {}: {}", si, fi, e)),
                        }
                        p += n;
                    }
                }
                out.extend_from_slice(&body[p..]);
                if !d.fields.is_empty() {
                    o.nontrivial = true;
                }
                if p < body.len() {
                    o.label("v9:data-with-padding");
                }
            }
        }
        off += len;
    }
    Ok(if fails { None } else { Some(out) })
}

fn predict_ipfix(o: &mut Outcome, m: &ipfix::IPFix, inp: &[u8], shadow: &mut Shadow) -> Result<Option<Vec<u8>>, String> {
    let mut out = inp[..16].to_vec();
    let mut off = 16usize;
    let mut fails = false;
    for (si, fs) in m.flowsets.iter().enumerate() {
        let len = (fs.header.length as usize).max(4);
        if off + len > inp.len() {
            return Err(format!("set {} exceeds the message", si));
        }
        let set = &inp[off..off + len];
        out.extend_from_slice(&set[..4]);
        let body = &set[4..];
        let (fields, def_kind) = match &fs.body {
            ipfix::FlowSetBody::Template(t) => {
                shadow.insert((Proto::Ipfix, t.template_id), obs::def_of_ipfix_template(t));
                out.extend_from_slice(body);
                off += len;
                continue;
            }
            ipfix::FlowSetBody::OptionsTemplate(t) => {
                shadow.insert((Proto::Ipfix, t.template_id), obs::def_of_ipfix_options(t));
                out.extend_from_slice(body);
                off += len;
                continue;
            }
            ipfix::FlowSetBody::Data(d) => (&d.fields, Kind::Plain),
            ipfix::FlowSetBody::OptionsData(d) => (&d.fields, Kind::Options),
        };
        let _ = def_kind;
        let Some(def) = shadow.get(&(Proto::Ipfix, fs.header.header_id)).cloned() else {
            return Err(format!("set {}: no template known for data id {}", si, fs.header.header_id));
        };
        let mut p = 0usize;
        for (fi, _f, v) in obs::flat_ipfix(fields) {
            let Some(f) = def.fields.get(fi) else {
                return Err(format!("set {}: field index {} beyond the template", si, fi));
            };
            let mut prefix = 0usize;
            let declared = if f.len == VARLEN {
                if p >= body.len() {
                    return Err(format!("set {}: variable-length prefix beyond the set", si));
                }
                if body[p] == 255 {
                    if p + 3 > body.len() {
                        return Err(format!("set {}: variable-length prefix beyond the set", si));
                    }
                    prefix = 3;
                    be16(body, p + 1) as usize
                } else {
                    prefix = 1;
                    body[p] as usize
                }
            } else {
                f.len as usize
            };
            // fixed-format kinds are read with their own width whatever the template declares
            let n = if f.ent.is_some() { declared } else { consumed(v, declared) };
            if p + prefix + n > body.len() {
                return Err(format!("set {}: decoded records exceed the set body", si));
            }
            if prefix > 0 {
                // finding D17: the length prefix is consumed at decode and not retained
                o.hit("ipfix:export:varlen-prefix");
            }
            match predict_field(o, "ipfix", v, &body[p + prefix..p + prefix + n]) {
                Ok(b) => out.extend_from_slice(&b),
                Err(e) if e == "EXPORT-ERR" => fails = true,
                Err(e) => return Err(format!("set {} field {}: {}", si, fi, e)),
            }
            p += prefix + n;
        }
        out.extend_from_slice(&body[p..]);
        if !fields.is_empty() {
            o.nontrivial = true;
        }
        if p < body.len() {
            o.label("ipfix:data-with-padding");
        }
        off += len;
    }
    if off < inp.len() {
        // finding D9 (export side): bytes of sets the library did not decode are absent
        o.hit("ipfix:export:omitted-set-bytes");
    }
    Ok(if fails { None } else { Some(out) })
}

fn oracle(case: &Case, want: Proto) -> Outcome {
    let strict = case.param("strict") != 0;
    let mut o = Outcome::pass();
    let n = case.n_parsers();
    let mut parsers: Vec<_> = (0..n).map(|i| obs::new_parser(&case.allowed_of(i))).collect();
    // every element with what it exported right after its call: exported again at the end of
    // the history, when the parsers have moved on (an element must not depend on parser state)
    let mut kept: Vec<(usize, usize, NetflowPacket, String)> = vec![];
    let export_of = |el: &NetflowPacket| -> Option<String> {
        match el {
            NetflowPacket::V9(p) => Some(format!("{:?}", p.to_be_bytes().map_err(|e| e.to_string()))),
            NetflowPacket::IPFix(m) => Some(format!("{:?}", m.to_be_bytes().map_err(|e| e.to_string()))),
            _ => None,
        }
    };
    for (ci, c) in case.calls.iter().enumerate() {
        let buf = c.buf();
        let mut shadow = shadow_from_lib(&parsers[c.parser]);
        let res = parsers[c.parser].parse_bytes(&buf);
        if ci + 1 < case.calls.len() && kept.len() < 64 {
            for (i, el) in res.iter().enumerate() {
                if let Some(x) = export_of(el) {
                    kept.push((ci, i, el.clone(), x));
                }
            }
        }
        let allowed: HashSet<u16> = case.allowed_of(c.parser).into_iter().collect();
        let spans = match decompose(&buf, &allowed, &res) {
            Ok((s, _)) => s,
            Err(m) => return Outcome::violation(format!("call {}: decomposition (C02) fails: {}", ci, m)),
        };
        for (i, sp) in spans.iter().enumerate() {
            let inp = &buf[sp.start..sp.start + sp.len];
            let mut eo = Outcome::pass();
            let (exported, predicted) = match (&res[i], want) {
                (NetflowPacket::V9(p), Proto::V9) => {
                    o.label("v9-element");
                    (p.to_be_bytes().map_err(|e| e.to_string()), predict_v9(&mut eo, p, inp, &mut shadow))
                }
                (NetflowPacket::V9(p), Proto::Ipfix) => {
                    // keep the shadow current, verdict is C09's
                    let mut scratch = Outcome::pass();
                    let _ = predict_v9(&mut scratch, p, inp, &mut shadow);
                    continue;
                }
                (NetflowPacket::IPFix(m), Proto::Ipfix) => {
                    if m.header.length < 16 {
                        o.label("ipfix-length<16-skipped");
                        continue;
                    }
                    o.label("ipfix-element");
                    (m.to_be_bytes().map_err(|e| e.to_string()), predict_ipfix(&mut eo, m, inp, &mut shadow))
                }
                (NetflowPacket::IPFix(m), Proto::V9) => {
                    let mut scratch = Outcome::pass();
                    if m.header.length >= 16 {
                        let _ = predict_ipfix(&mut scratch, m, inp, &mut shadow);
                    }
                    continue;
                }
                _ => continue,
            };
            let at = format!("call {} element {} (offset {}, {} bytes)", ci, i, sp.start, sp.len);
            // the property itself: an export that reproduces the input bytes is right, whatever
            // the attribution below would have predicted (a library that repairs a listed
            // lossy export, inside the exporter or the value types, must never be flagged)
            if let Ok(e) = &exported {
                if e.as_slice() == inp {
                    o.nontrivial |= eo.nontrivial;
                    for l in eo.labels.drain(..) {
                        o.label(l);
                    }
                    o.label("exact-re-export");
                    continue;
                }
            }
            let clean = eo.known.is_empty();
            o.nontrivial |= eo.nontrivial;
            for l in eo.labels.drain(..) {
                o.label(l);
            }
            for k in eo.known.drain(..) {
                o.hit(k);
            }
            let predicted = match predicted {
                Ok(p) => p,
                Err(m) => return Outcome::violation(format!("{}: {}", at, m)),
            };
            match (exported, predicted) {
                (Ok(e), Some(p)) => {
                    if e != p {
                        let d = e.iter().zip(p.iter()).position(|(a, b)| a != b);
                        return Outcome::violation(format!(
                            "{}: to_be_bytes returns {} bytes, the input bytes (with listed findings applied) give {}; first difference at {:?}",
                            at,
                            e.len(),
                            p.len(),
                            d.or(Some(e.len().min(p.len())))
                        ));
                    }
                    if clean && e != inp {
                        return Outcome::violation(format!("{}: HARNESS: prediction differs from the input without any finding", at));
                    }
                }
                (Err(_), None) => {}
                (Err(m), Some(_)) => {
                    return Outcome::violation(format!("{}: to_be_bytes fails ({}) although every value is exportable", at, m));
                }
                (Ok(_), None) => {
                    return Outcome::violation(format!("{}: HARNESS: export predicted to fail but succeeded", at));
                }
            }
        }
    }
    for (ci, i, el, first) in &kept {
        if export_of(el).as_ref() != Some(first) {
            return Outcome::violation(format!(
                "call {} element {}: to_be_bytes gives a different result after later calls than right after its own call",
                ci, i
            ));
        }
        o.label("export-repeated-after-later-calls");
    }
    if strict && !o.known.is_empty() {
        return Outcome::violation(format!(
            "strict case (lossless value kinds only) nevertheless shows findings {:?}",
            o.known
        ));
    }
    if strict {
        o.label("strict");
    }
    o
}

pub fn oracle_c09(case: &Case) -> Outcome {
    let o = oracle(case, Proto::V9);
    fix_harness(o)
}
pub fn oracle_c10(case: &Case) -> Outcome {
    let o = oracle(case, Proto::Ipfix);
    fix_harness(o)
}
fn fix_harness(o: Outcome) -> Outcome {
    if let crate::engine::Verdict::Violation(m) = &o.verdict {
        if m.contains("HARNESS:") {
            return Outcome::harness(m.clone());
        }
    }
    o
}

fn with_strict(s: proptest::strategy::BoxedStrategy<Case>) -> proptest::strategy::BoxedStrategy<Case> {
    use proptest::strategy::Strategy;
    s.prop_map(|mut c| {
        c.params.insert("strict".into(), 1);
        c
    })
    .boxed()
}

const LOSSLESS: BuildOpts = BuildOpts { utf8_only: true, ..BuildOpts::STRICT };

pub fn run_c09(ctx: &Ctx) {
    ctx.replay_findings(&oracle_c09);
    let c = StreamCfg { mix: Mix { fixed: 1, v9: 8, ipfix: 1 }, ..super::c04::cfg(ctx.thorough()) };
    ctx.search(
        "strict-lossless",
        ctx.n(200_000, 20_000_000),
        &move || with_strict(gen::conformant_case_lossless(c, LOSSLESS)),
        &oracle_c09,
    );
    ctx.search("wide", ctx.n(120_000, 10_000_000), &move || gen::conformant_case(c, BuildOpts::WIDE), &oracle_c09);
    ctx.search("hostile", ctx.n(200_000, 20_000_000), &gen::hostile_case, &oracle_c09);
    ctx.enumerate("boundary-counts", gen::boundary_count_cases(Proto::V9), false, &oracle_c09);
    for (k, name) in ["datagram-sized-many-records", "datagram-sized-many-fields", "datagram-sized-many-sets"].iter().enumerate() {
        let big = StreamCfg::datagram_sized(c.mix, k);
        ctx.search(name, ctx.n(120, 6_000), &move || with_strict(gen::conformant_case_lossless(big, LOSSLESS.big())), &oracle_c09);
    }
}

pub fn run_c10(ctx: &Ctx) {
    ctx.replay_findings(&oracle_c10);
    let c = StreamCfg { mix: Mix { fixed: 1, v9: 1, ipfix: 8 }, ..super::c05::cfg(ctx.thorough()) };
    ctx.search(
        "strict-lossless",
        ctx.n(200_000, 20_000_000),
        &move || with_strict(gen::conformant_case_lossless(c, LOSSLESS)),
        &oracle_c10,
    );
    ctx.search("wide", ctx.n(120_000, 10_000_000), &move || gen::conformant_case(c, BuildOpts::WIDE), &oracle_c10);
    ctx.search("hostile", ctx.n(200_000, 20_000_000), &gen::hostile_case, &oracle_c10);
    ctx.enumerate("boundary-counts", gen::boundary_count_cases(Proto::Ipfix), false, &oracle_c10);
    for (k, name) in ["datagram-sized-many-records", "datagram-sized-many-fields", "datagram-sized-many-sets"].iter().enumerate() {
        let big = StreamCfg::datagram_sized(c.mix, k);
        ctx.search(name, ctx.n(120, 6_000), &move || with_strict(gen::conformant_case_lossless(big, LOSSLESS.big())), &oracle_c10);
    }
}
