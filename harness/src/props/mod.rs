//! One oracle per property. Each module exposes `run(ctx)` (the phases of the check) and
//! `oracle(case)` (used by replay).

use crate::engine::{Case, Ctx, Outcome};
use netflow_parser::{NetflowPacket, NetflowParser};

pub mod c01;
pub mod c02;
pub mod c03;
pub mod c04;
pub mod c05;
pub mod c11;
pub mod c12;
pub mod c13;
pub mod c14;
pub mod c15;
pub mod c16;
pub mod c17;
pub mod conf;
pub mod reexport;
pub mod c06;
pub mod c07;
pub mod c08;

/// run a case's history on fresh parsers; returns per call (parser index, buffer, result)
pub fn run_history(case: &Case) -> (Vec<NetflowParser>, Vec<(usize, Vec<u8>, Vec<NetflowPacket>)>) {
    let n = case.n_parsers();
    let mut parsers: Vec<NetflowParser> = (0..n)
        .map(|i| crate::obs::new_parser(&case.allowed_of(i)))
        .collect();
    let mut out = vec![];
    for c in &case.calls {
        let buf = c.buf();
        let res = parsers[c.parser].parse_bytes(&buf);
        out.push((c.parser, buf, res));
    }
    (parsers, out)
}

pub struct PropDef {
    pub id: &'static str,
    pub run: fn(&Ctx),
    pub oracle: fn(&Case) -> Outcome,
    pub rule: &'static str,
    pub assumptions: &'static [&'static str],
}

pub fn all() -> Vec<PropDef> {
    vec![c01::DEF, c02::DEF, c03::DEF, c04::DEF, c05::DEF, c06::DEF, c07::DEF, c08::DEF, reexport::C09, reexport::C10, c11::DEF, c12::DEF, c13::DEF, c14::DEF, c15::DEF, c16::DEF, c17::DEF]
}
