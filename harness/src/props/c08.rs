//! C08 - re-exporting a decoded V5/V7 packet reproduces its bytes, and vice versa.

use super::{run_history, PropDef};
use crate::engine::{Case, Ctx, Outcome};
use crate::gen;
use crate::obs::{decompose, new_parser};
use crate::refdec::{dec_fixed, RefFixed};
use crate::wire::*;
use netflow_parser::protocol::ProtocolTypes;
use netflow_parser::static_versions::{v5, v7};
use netflow_parser::NetflowPacket;
use proptest::prelude::*;
use std::collections::HashSet;
use std::net::Ipv4Addr;

pub const DEF: PropDef = PropDef {
    id: "C08",
    run,
    oracle,
    rule: "cases = buffers of 1..4 chained V5/V7 packets with raw-byte headers/records (random, distinct-byte patterns, boundary values), counts 0..40 (quick) up to the datagram limit (thorough). Direction (a): every V5/V7 element returned by parse_bytes must re-export (to_be_bytes) to exactly the bytes of its span in the input. Direction (b): for every packet the harness builds the library's V5/V7 structure by assigning every public field (of a structure obtained by parsing an all-zero packet of the same count) from an independent offset-table decode (count = number of records, protocol_type = ProtocolTypes::from(number)), and requires to_be_bytes to give the original bytes, parsing those bytes to give one packet, no remainder, equal header and records, and a second export to give the same bytes. non-trivial = count >= 2 and all adjacent equal-width fields of some record carry different values (a transposition cannot cancel); distinct by digest.",
    assumptions: &["structures for direction (b) are built from the independent offset table of C03 (refdec::V5_RECORD / V7_RECORD)"],
};

fn g(n: &[(&'static str, u64)], k: &str) -> u64 {
    n.iter().find(|(a, _)| *a == k).map(|(_, v)| *v).unwrap_or_else(|| panic!("no field {}", k))
}

/// A structure of the library's own making to start from: the parse of a packet of `n`
/// all-zero records. Every public field is then assigned from the independent offset-table
/// decode, so the structure does not depend on the parser - but it keeps compiling (and
/// keeps whatever the library fills in) if a field is added to the library's structs later.
fn blank(version: u16, n: usize) -> Option<NetflowPacket> {
    let rl = if version == 5 { 48 } else { 52 };
    let bytes = enc_fixed(version, n as u16, &[0; 20], &vec![vec![0u8; rl]; n]);
    let mut r = new_parser(&[5, 7]).parse_bytes(&bytes);
    if r.len() == 1 {
        r.pop()
    } else {
        None
    }
}

fn build_v5(r: &RefFixed) -> Option<v5::V5> {
    let Some(NetflowPacket::V5(mut v)) = blank(5, r.records.len()) else { return None };
    if v.flowsets.len() != r.records.len() {
        return None;
    }
    let h = &r.header;
    v.header.version = 5;
    v.header.count = r.records.len() as u16;
    v.header.sys_up_time = g(h, "sys_up_time") as u32;
    v.header.unix_secs = g(h, "unix_secs") as u32;
    v.header.unix_nsecs = g(h, "unix_nsecs") as u32;
    v.header.flow_sequence = g(h, "flow_sequence") as u32;
    v.header.engine_type = g(h, "engine_type") as u8;
    v.header.engine_id = g(h, "engine_id") as u8;
    v.header.sampling_interval = g(h, "sampling_interval") as u16;
    for (f, s) in v.flowsets.iter_mut().zip(r.records.iter()) {
        f.src_addr = Ipv4Addr::from(g(s, "src_addr") as u32);
        f.dst_addr = Ipv4Addr::from(g(s, "dst_addr") as u32);
        f.next_hop = Ipv4Addr::from(g(s, "next_hop") as u32);
        f.input = g(s, "input") as u16;
        f.output = g(s, "output") as u16;
        f.d_pkts = g(s, "d_pkts") as u32;
        f.d_octets = g(s, "d_octets") as u32;
        f.first = g(s, "first") as u32;
        f.last = g(s, "last") as u32;
        f.src_port = g(s, "src_port") as u16;
        f.dst_port = g(s, "dst_port") as u16;
        f.pad1 = g(s, "pad1") as u8;
        f.tcp_flags = g(s, "tcp_flags") as u8;
        f.protocol_number = g(s, "protocol_number") as u8;
        f.protocol_type = ProtocolTypes::from(g(s, "protocol_number") as u8);
        f.tos = g(s, "tos") as u8;
        f.src_as = g(s, "src_as") as u16;
        f.dst_as = g(s, "dst_as") as u16;
        f.src_mask = g(s, "src_mask") as u8;
        f.dst_mask = g(s, "dst_mask") as u8;
        f.pad2 = g(s, "pad2") as u16;
    }
    Some(v)
}

fn build_v7(r: &RefFixed) -> Option<v7::V7> {
    let Some(NetflowPacket::V7(mut v)) = blank(7, r.records.len()) else { return None };
    if v.flowsets.len() != r.records.len() {
        return None;
    }
    let h = &r.header;
    v.header.version = 7;
    v.header.count = r.records.len() as u16;
    v.header.sys_up_time = g(h, "sys_up_time") as u32;
    v.header.unix_secs = g(h, "unix_secs") as u32;
    v.header.unix_nsecs = g(h, "unix_nsecs") as u32;
    v.header.flow_sequence = g(h, "flow_sequence") as u32;
    v.header.reserved = g(h, "reserved") as u32;
    for (f, s) in v.flowsets.iter_mut().zip(r.records.iter()) {
        f.src_addr = Ipv4Addr::from(g(s, "src_addr") as u32);
        f.dst_addr = Ipv4Addr::from(g(s, "dst_addr") as u32);
        f.next_hop = Ipv4Addr::from(g(s, "next_hop") as u32);
        f.input = g(s, "input") as u16;
        f.output = g(s, "output") as u16;
        f.d_pkts = g(s, "d_pkts") as u32;
        f.d_octets = g(s, "d_octets") as u32;
        f.first = g(s, "first") as u32;
        f.last = g(s, "last") as u32;
        f.src_port = g(s, "src_port") as u16;
        f.dst_port = g(s, "dst_port") as u16;
        f.flags_fields_valid = g(s, "flags_fields_valid") as u8;
        f.tcp_flags = g(s, "tcp_flags") as u8;
        f.protocol_number = g(s, "protocol_number") as u8;
        f.protocol_type = ProtocolTypes::from(g(s, "protocol_number") as u8);
        f.tos = g(s, "tos") as u8;
        f.src_as = g(s, "src_as") as u16;
        f.dst_as = g(s, "dst_as") as u16;
        f.src_mask = g(s, "src_mask") as u8;
        f.dst_mask = g(s, "dst_mask") as u8;
        f.flags_fields_invalid = g(s, "flags_fields_invalid") as u16;
        f.router_src = Ipv4Addr::from(g(s, "router_src") as u32);
    }
    Some(v)
}

fn neighbours_differ(r: &RefFixed) -> bool {
    let table = if r.version == 5 { crate::refdec::V5_RECORD } else { crate::refdec::V7_RECORD };
    r.records.len() >= 2
        && r.records.iter().any(|rec| {
            rec.windows(2).zip(table.windows(2)).all(|(v, t)| t[0].2 != t[1].2 || v[0].1 != v[1].1)
        })
}

pub fn oracle(case: &Case) -> Outcome {
    let (_, calls) = run_history(case);
    let mut o = Outcome::pass();
    for (ci, (pi, buf, res)) in calls.iter().enumerate() {
        let allowed: HashSet<u16> = case.allowed_of(*pi).into_iter().collect();
        // (a) bytes -> struct -> bytes, on whatever the library accepted
        let spans = match decompose(buf, &allowed, res) {
            Ok((s, _)) => s,
            Err(m) => return Outcome::violation(format!("call {}: decomposition (C02) fails: {}", ci, m)),
        };
        for (i, sp) in spans.iter().enumerate() {
            let out = match &res[i] {
                NetflowPacket::V5(p) => p.to_be_bytes(),
                NetflowPacket::V7(p) => p.to_be_bytes(),
                _ => continue,
            };
            let want = &buf[sp.start..sp.start + sp.len];
            if out != want {
                let at = out.iter().zip(want.iter()).position(|(a, b)| a != b);
                return Outcome::violation(format!(
                    "call {} element {}: to_be_bytes ({} bytes) differs from the {} input bytes at offset {}; first difference at {:?}",
                    ci,
                    i,
                    out.len(),
                    sp.len,
                    sp.start,
                    at
                ));
            }
            o.label("a:reexport");
        }
        // (b) struct -> bytes -> struct, for every complete packet by the reference decode
        let mut off = 0;
        while off + 2 <= buf.len() && (be16(buf, off) == 5 || be16(buf, off) == 7) {
            let Some(r) = dec_fixed(&buf[off..]) else { break };
            let orig = &buf[off..off + r.len];
            let built = if r.version == 5 { build_v5(&r).map(|s| s.to_be_bytes()) } else { build_v7(&r).map(|s| s.to_be_bytes()) };
            let Some(bytes) = built else {
                return Outcome::violation(format!(
                    "call {}: a V{} packet of {} all-zero records (the starting point for building a structure) does not parse to one packet with that many records",
                    ci,
                    r.version,
                    r.records.len()
                ));
            };
            if bytes != orig {
                let at = bytes.iter().zip(orig.iter()).position(|(a, b)| a != b);
                return Outcome::violation(format!(
                    "call {}: V{} structure built from field values exports {} bytes, expected {}; first difference at {:?}",
                    ci,
                    r.version,
                    bytes.len(),
                    orig.len(),
                    at
                ));
            }
            let mut p = new_parser(&[5, 7]);
            let back = p.parse_bytes(&bytes);
            if back.len() != 1 {
                return Outcome::violation(format!(
                    "call {}: parsing the export of a V{} structure yields {} elements",
                    ci,
                    r.version,
                    back.len()
                ));
            }
            let same = match (&back[0], r.version) {
                // (protocol_type, the symbolic name, is C03's subject: it is taken over from the
                // parsed packet so that this comparison does not depend on which of the
                // library's two number->name routes the parser uses)
                (NetflowPacket::V5(q), 5) => {
                    let Some(mut s) = build_v5(&r) else { return Outcome::harness("HARNESS: blank V5 structure unavailable") };
                    for (a, b) in s.flowsets.iter_mut().zip(q.flowsets.iter()) {
                        a.protocol_type = b.protocol_type;
                    }
                    q.header == s.header && q.flowsets == s.flowsets && q.to_be_bytes() == bytes
                }
                (NetflowPacket::V7(q), 7) => {
                    let Some(mut s) = build_v7(&r) else { return Outcome::harness("HARNESS: blank V7 structure unavailable") };
                    for (a, b) in s.flowsets.iter_mut().zip(q.flowsets.iter()) {
                        a.protocol_type = b.protocol_type;
                    }
                    q.header == s.header && q.flowsets == s.flowsets && q.to_be_bytes() == bytes
                }
                _ => false,
            };
            if !same {
                return Outcome::violation(format!(
                    "call {}: V{} structure -> bytes -> structure is not the identity",
                    ci, r.version
                ));
            }
            o.label("b:struct-roundtrip");
            if neighbours_differ(&r) {
                o.nontrivial = true;
            }
            if r.records.len() >= 2 {
                o.label("count>=2");
            }
            off += r.len;
        }
    }
    o
}

fn fixed_case(max_recs: usize, max_pkts: usize) -> BoxedStrategy<Case> {
    proptest::collection::vec(gen::fixed_plan(max_recs), 1..=max_pkts)
        .prop_map(|pkts| {
            let plan = gen::StreamPlan {
                pool: gen::Pool { ids: vec![], v9: vec![], ipfix: vec![] },
                calls: vec![pkts],
            };
            let b = gen::build(&plan, &gen::BuildOpts::STRICT);
            let mut c = Case::single(vec![]);
            c.calls = b.calls;
            c
        })
        .boxed()
}

pub fn run(ctx: &Ctx) {
    ctx.replay_findings(&oracle);
    ctx.search("random-packets", ctx.n(800_000, 40_000_000), &|| fixed_case(6, 4), &oracle);
    ctx.search("more-records", ctx.n(30_000, 1_000_000), &|| fixed_case(40, 2), &oracle);
    if ctx.thorough() {
        ctx.search("datagram-limit", 40_000, &|| fixed_case(1364, 1), &oracle);
    }
    let mut cases = vec![];
    for (v, n, rl) in [(5u16, 1364usize, 48usize), (7, 1259, 52)] {
        let recs: Vec<Vec<u8>> = (0..n).map(|k| (0..rl).map(|i| (k * 31 + i * 7 + 1) as u8).collect()).collect();
        cases.push(Case::single(enc_fixed(v, n as u16, &[0x5a; 20], &recs)));
        cases.push(Case::single(enc_fixed(v, 0, &[0x5a; 20], &[])));
        for p in 0..=255u8 {
            let mut r: Vec<u8> = (0..rl).map(|i| (i * 5 + 3) as u8).collect();
            r[38] = p;
            cases.push(Case::single(enc_fixed(v, 2, &[p; 20], &[r.clone(), r])));
        }
    }
    ctx.enumerate("datagram-limit-and-all-protocol-numbers", cases, false, &oracle);
}
