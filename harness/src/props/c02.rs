//! C02 - results account for every input byte.

use super::{run_history, PropDef};
use crate::engine::{Case, Ctx, Outcome};
use crate::gen;
use crate::obs::decompose;
use netflow_parser::NetflowPacket;
use std::collections::HashSet;

pub const DEF: PropDef = PropDef {
    id: "C02",
    run,
    oracle,
    rule: "cases = (allowed set, history of buffers) from the hostile generator (conformant streams with hostile templates, header/length mutations, truncations, raw bytes behind a version prefix, random bytes) and from conformant multi-packet streams; oracle = left-to-right decomposition by each element's own header lengths, at most one final Error carrying exactly the unconsumed suffix, silent stop only in front of a disallowed version. non-trivial = some call returns >= 2 elements, or an Error preceded by >= 1 packet, or a silent stop after >= 1 packet, or a V9/IPFIX element with a flowset length < 4 / message length < 16; distinct by digest of (allowed sets, buffers).",
    assumptions: &["wire length of an element is computed from the header fields the library reports (count / length); their correctness is C03-C05's subject"],
};

pub fn oracle(case: &Case) -> Outcome {
    let (_, calls) = run_history(case);
    let mut o = Outcome::pass();
    for (ci, (pi, buf, res)) in calls.iter().enumerate() {
        let allowed: HashSet<u16> = case.allowed_of(*pi).into_iter().collect();
        match decompose(buf, &allowed, res) {
            Err(m) => return Outcome::violation(format!("call {}: {}", ci, m)),
            Ok((spans, off)) => {
                let has_err = matches!(res.last(), Some(NetflowPacket::Error(_)));
                if res.len() >= 2 {
                    o.nontrivial = true;
                    o.label("multi-element");
                }
                if has_err && res.len() >= 2 {
                    o.label("error-after-packets");
                }
                if !has_err && off < buf.len() && !spans.is_empty() {
                    o.nontrivial = true;
                    o.label("silent-stop-after-packets");
                }
                if !has_err && off < buf.len() {
                    o.label("silent-stop");
                }
                for el in res {
                    match el {
                        NetflowPacket::IPFix(m) if m.header.length < 16 => {
                            o.nontrivial = true;
                            o.label("ipfix-length<16");
                        }
                        NetflowPacket::V9(v) => {
                            if v.flowsets.iter().any(|f| f.header.length < 4) {
                                o.nontrivial = true;
                                o.label("v9-flowset-length<4");
                            }
                            o.label("v9");
                        }
                        NetflowPacket::IPFix(_) => o.label("ipfix"),
                        NetflowPacket::V5(_) => o.label("v5"),
                        NetflowPacket::V7(_) => o.label("v7"),
                        NetflowPacket::Error(_) => o.label("error"),
                    }
                }
            }
        }
    }
    o
}

pub fn run(ctx: &Ctx) {
    ctx.replay_findings(&oracle);
    ctx.search("hostile-histories", ctx.n(400_000, 12_000_000), &gen::hostile_case, &oracle);
    ctx.search("datagram-sized-stress-cases-mutated", ctx.n(640, 20_000), &super::c01::stress_mut_case, &oracle);
    let cfg = gen::StreamCfg::small(gen::Mix { fixed: 2, v9: 2, ipfix: 2 });
    ctx.search(
        "conformant-chained",
        ctx.n(100_000, 3_000_000),
        &move || gen::conformant_case(cfg, gen::BuildOpts { count_by_flowsets: true, ..gen::BuildOpts::WIDE }),
        &oracle,
    );
}
