//! C17 - the crate builds and keeps its contract with parse_unknown_fields disabled.
//!
//! The harness is built twice from the same sources: with its `puf` feature (forwarding
//! to netflow_parser/parse_unknown_fields) and without. `check C17` is the feature-on
//! build; it drives the feature-off build's `c17arm` binary as a subprocess. Both arms
//! generate the same seeded cases.

use super::conf::{stream_outcome, StreamOpts};
use super::PropDef;
use crate::engine::{Case, Ctx, Outcome, Verdict, VERIF_DIR};
use crate::gen::{self, BuildOpts, Mix, StreamCfg};
use crate::obs;
use crate::refdec::{dec_ipfix, dec_v9, dtype, RefBody};
use crate::wire::*;
use netflow_parser::variable_versions::data_number::FieldDataType;
use netflow_parser::variable_versions::{ipfix, v9};
use netflow_parser::NetflowPacket;
use proptest::strategy::{Strategy, ValueTree};
use proptest::test_runner::{Config, RngSeed, TestRunner};
use serde_json::json;
use std::process::{Command, Stdio};

pub const PUF: bool = cfg!(feature = "puf");

pub const DEF: PropDef = PropDef {
    id: "C17",
    run,
    oracle,
    rule: "configurations x inputs: the harness is built with and without the parse_unknown_fields feature from the same sources (a failing feature-off build is itself the violation, the compiler diagnostic is the replay file). Class K (known-only): conformant V9/IPFIX/V5/V7 histories (C04/C05 plans, wide mode) whose templates are rewritten to contain only field numbers the library types (enterprise elements kept: they never reach the unknown-field helper); both builds generate the same seeded cases and emit, per case, a digest of (complete Debug rendering of every result, to_be_bytes output or error text of every element, common view of every element); the two digest streams must be identical, and both builds additionally compare every case with the independent reference decode (C04/C05 oracle). Class U (unknown): the same plans with >= 1 untyped field number forced into every plain template; in the feature-off build no record may be reported for such a template (V9: the data flowset carries no records; IPFIX: no data set of that id), nothing may panic, cache = model; in the feature-on build the case must equal the reference decode. Class W (odd widths): class K plans in which a third of the fields are re-declared with widths outside the envelope (5, 6, 7, 9, 12, 17, 20, 33, 100, 3 bytes): no reference reading exists, the two builds must still agree on every observable (digest of results, re-export, common view, caches). non-trivial = class K with >= 1 data record, every class W case, class U with the untyped field neither first nor last in some template that received data; distinct by digest.",
    assumptions: &[
        "V9 options data is kept as raw bytes per field in both configurations (no typed decode), so untyped fields are forced into plain templates only",
        "both arms use the same proptest version and seeds, hence the same cases",
    ],
};

fn known_only(proto: Proto, d: &mut Def) {
    for (i, f) in d.fields.iter_mut().enumerate() {
        if f.ent.is_some() || (proto == Proto::V9 && d.kind == Kind::Options && i < d.scope_n as usize) {
            continue;
        }
        if dtype(proto, f) == FieldDataType::Unknown {
            f.ie = 1;
            f.len = if f.len == VARLEN || f.len == 0 { 4 } else { [1u16, 2, 3, 4, 8, 16][f.len as usize % 6] };
        }
    }
}

fn force_unknown(proto: Proto, d: &mut Def, sel: u8) {
    // V9 options data is decoded as raw bytes per field whatever the type; IPFIX options data
    // goes through the typed field parser like plain data
    if d.kind != Kind::Plain && proto == Proto::V9 {
        known_only(proto, d);
        return;
    }
    let has = d.fields.iter().any(|f| f.ent.is_none() && dtype(proto, f) == FieldDataType::Unknown);
    if !has {
        let pos = (sel as usize * (d.fields.len() + 1)) >> 8;
        d.fields.insert(pos, FieldSpec { ie: if proto == Proto::V9 { 1000 } else { 600 }, len: 1 + (sel % 7) as u16, ent: None });
    }
}

fn cfg() -> StreamCfg {
    StreamCfg {
        mix: Mix { fixed: 1, v9: 4, ipfix: 4 },
        ids: (2, 4),
        max_fields: 8,
        calls: (1, 3),
        pkts_per_call: (1, 2),
        max_sets: 4,
        max_recs: 4,
        mixed_kinds: false,
    }
}

/// class W: only elements the library knows, but declared with widths outside the conformant
/// envelope (5, 7, 17, 33 ... bytes for numbers, 3 for an address): what the library does
/// with them is its own business, but it must be the same in both builds
fn odd_widths(d: &mut Def, sel: u8) {
    const ODD: [u16; 10] = [5, 6, 7, 9, 12, 17, 20, 33, 100, 3];
    for (i, f) in d.fields.iter_mut().enumerate() {
        if f.ent.is_none() && f.len != VARLEN && (sel as usize + i * 5) % 3 == 0 {
            f.len = ODD[(sel as usize / 3 + i) % ODD.len()];
        }
    }
}

fn class_strategy(class: &str) -> proptest::strategy::BoxedStrategy<Case> {
    let unknown = class == "U";
    let odd = class == "W";
    (gen::stream(cfg()), proptest::prelude::any::<u8>())
        .prop_map(move |(mut p, sel)| {
            for (proto, pool) in [(Proto::V9, &mut p.pool.v9), (Proto::Ipfix, &mut p.pool.ipfix)] {
                for alts in pool.iter_mut() {
                    for d in alts.iter_mut() {
                        if unknown {
                            force_unknown(proto, d, sel);
                        } else {
                            known_only(proto, d);
                        }
                        if odd {
                            odd_widths(d, sel);
                        }
                    }
                }
            }
            // one template record per IPFIX template set: several records are merged into
            // one template with arbitrary (also untyped) field numbers (finding D7 of C05),
            // which would defeat the known-only / forced-unknown construction
            let b = gen::build(&p, &BuildOpts { count_by_flowsets: true, multi_tpl_ipfix: false, ..BuildOpts::WIDE });
            let mut c = Case { calls: b.calls, ..Case::single(vec![]) };
            c.params.insert("class_unknown".into(), unknown as i64);
            if odd {
                c.params.insert("class_odd_widths".into(), 1);
            }
            c
        })
        .boxed()
}

/// the same deterministic case sequence in every build
pub fn gen_cases(class: &str, seed: u64, shard: u64, n: usize) -> Vec<Case> {
    let h = crate::wire::fnv(&[&seed.to_be_bytes(), class.as_bytes(), &shard.to_be_bytes(), b"c17"]);
    let mut runner = TestRunner::new(Config { rng_seed: RngSeed::Fixed(h ^ (h >> 31)), failure_persistence: None, ..Config::default() });
    let s = class_strategy(class);
    (0..n).map(|_| s.new_tree(&mut runner).expect("tree").current()).collect()
}

/// debugging aid: the observation parts of case `index`
pub fn arm_dump(class: &str, seed: u64, shard: u64, index: usize) {
    let case = gen_cases(class, seed, shard, index + 1).pop().unwrap();
    for p in observe_parts(&case) {
        println!("{}", String::from_utf8_lossy(&p));
    }
}

/// digest of everything a user can observe for a case
pub fn observe_digest(case: &Case) -> u64 {
    let parts = observe_parts(case);
    let refs: Vec<&[u8]> = parts.iter().map(|p| p.as_slice()).collect();
    crate::wire::fnv(&refs)
}

pub fn observe_parts(case: &Case) -> Vec<Vec<u8>> {
    let mut p = obs::new_parser(&case.allowed_of(0));
    let mut parts: Vec<Vec<u8>> = vec![];
    for c in &case.calls {
        for el in p.parse_bytes(&c.buf()) {
            parts.push(format!("{:?}", el).into_bytes());
            let exp = match &el {
                NetflowPacket::V5(x) => Ok(x.to_be_bytes()),
                NetflowPacket::V7(x) => Ok(x.to_be_bytes()),
                NetflowPacket::V9(x) => x.to_be_bytes().map_err(|e| e.to_string()),
                NetflowPacket::IPFix(x) => x.to_be_bytes().map_err(|e| e.to_string()),
                NetflowPacket::Error(_) => Err("error element".to_string()),
            };
            parts.push(format!("{:?}", exp).into_bytes());
            parts.push(format!("{:?}", el.as_netflow_common().map_err(|_| "err")).into_bytes());
        }
    }
    parts.push(obs::cache_fingerprint(&p).into_bytes());
    parts
}

/// feature-off oracle for class U
fn oracle_unknown_off(case: &Case) -> Outcome {
    let mut o = Outcome::pass();
    let mut p = obs::new_parser(&case.allowed_of(0));
    let mut model = Cache::default();
    let mut diverged = false;
    let untyped = |proto: Proto, d: &Def| d.fields.iter().position(|f| f.ent.is_none() && dtype(proto, f) == FieldDataType::Unknown);
    for (ci, c) in case.calls.iter().enumerate() {
        let buf = c.buf();
        let res = p.parse_bytes(&buf);
        let mut off = 0usize;
        for (i, el) in res.iter().enumerate() {
            if off + 2 > buf.len() {
                return Outcome::harness("HARNESS: more elements than bytes");
            }
            let at = |m: String| format!("[feature off] call {} element {}: {}", ci, i, m);
            match (be16(&buf, off), el) {
                (5 | 7, NetflowPacket::V5(_) | NetflowPacket::V7(_)) => {
                    off += crate::refdec::dec_fixed(&buf[off..]).map(|r| r.len).unwrap_or(buf.len());
                }
                (9, NetflowPacket::V9(lv)) => {
                    let r = match dec_v9(&buf[off..], &mut model) {
                        Ok(r) => r,
                        Err(e) => return Outcome::harness(format!("HARNESS: {}", e.0)),
                    };
                    if lv.flowsets.len() != r.sets.len() {
                        return Outcome::violation(at(format!("{} flowsets sent, {} reported", r.sets.len(), lv.flowsets.len())));
                    }
                    for (ls, rs) in lv.flowsets.iter().zip(r.sets.iter()) {
                        if let (RefBody::Data { def, records, .. }, v9::FlowSetBody::Data(d)) = (&rs.body, &ls.body) {
                            if let Some(pos) = untyped(Proto::V9, def) {
                                if !d.fields.is_empty() {
                                    return Outcome::violation(at(format!(
                                        "data flowset {} reports {} record(s) although its template holds field type {} which the library does not know",
                                        rs.id,
                                        d.fields.len(),
                                        def.fields[pos].ie
                                    )));
                                }
                                o.label("v9:records-with-untyped-field-not-reported");
                                if pos > 0 && pos + 1 < def.fields.len() && !records.is_empty() {
                                    o.nontrivial = true;
                                }
                            } else if d.fields.len() != records.len() {
                                return Outcome::violation(at(format!("flowset {} of a fully typed template: {} records sent, {} reported", rs.id, records.len(), d.fields.len())));
                            }
                        }
                    }
                    off += r.len;
                }
                (10, NetflowPacket::IPFix(lm)) => {
                    let mut tmp = model.clone();
                    let r = match dec_ipfix(&buf[off..], &mut tmp) {
                        Ok(r) => r,
                        // data for a template the library (correctly) never learned because it
                        // sat behind an omitted set: no conformant reading, the case ends here
                        Err(_) if diverged => return o,
                        Err(e) => return Outcome::harness(format!("HARNESS: {}", e.0)),
                    };
                    // walk: the library stops at the first set it cannot decode
                    let mut k = 0usize;
                    for rs in &r.sets {
                        match &rs.body {
                            RefBody::Data { def, records, .. } if untyped(Proto::Ipfix, def).is_some() => {
                                let pos = untyped(Proto::Ipfix, def).unwrap();
                                if pos > 0 && pos + 1 < def.fields.len() && !records.is_empty() {
                                    o.nontrivial = true;
                                }
                                o.label("ipfix:set-with-untyped-field-omitted");
                                break;
                            }
                            RefBody::UnknownTemplate => break,
                            RefBody::Templates { tpls, .. } => {
                                for (id, d) in tpls {
                                    model.ipfix.insert(*id, d.clone());
                                }
                            }
                            _ => {}
                        }
                        k += 1;
                    }
                    if k < r.sets.len() && r.sets[k + 1..].iter().any(|s| matches!(s.body, RefBody::Templates { .. })) && lm.flowsets.len() <= k {
                        diverged = true;
                    }
                    if lm.flowsets.len() > k {
                        // more reported than the decodable prefix: is any of it data for an untyped template?
                        for f in &lm.flowsets[k..] {
                            let is_data = matches!(f.body, ipfix::FlowSetBody::Data(_) | ipfix::FlowSetBody::OptionsData(_));
                            if is_data {
                                if let Some(d) = model.ipfix.get(&f.header.header_id) {
                                    if untyped(Proto::Ipfix, d).is_some() {
                                        return Outcome::violation(at(format!(
                                            "data set {} is reported as decoded although its template holds an element the library does not know",
                                            f.header.header_id
                                        )));
                                    }
                                }
                            }
                        }
                        // sets behind an omitted set were decoded: learn their templates too
                        for rs in &r.sets[k..] {
                            if let RefBody::Templates { tpls, .. } = &rs.body {
                                for (id, d) in tpls {
                                    model.ipfix.insert(*id, d.clone());
                                }
                            }
                        }
                    } else if lm.flowsets.len() < k {
                        if diverged {
                            return o;
                        }
                        return Outcome::violation(at(format!("{} decodable sets in front of the first undecodable one, {} reported", k, lm.flowsets.len())));
                    }
                    off += r.len;
                }
                (9, NetflowPacket::Error(_)) => {
                    // reporting the whole packet as an error is another way of "not reporting
                    // the record as decoded data" - accepted when the packet really holds
                    // data for a template with an untyped field; what such a library learns
                    // from the rest of the packet is not specified, so the case ends here
                    let mut tmp = model.clone();
                    let holds_untyped = match dec_v9(&buf[off..], &mut tmp) {
                        Ok(r) => r.sets.iter().any(|s| matches!(&s.body, RefBody::Data { def, .. } if untyped(Proto::V9, def).is_some())),
                        Err(_) => false,
                    };
                    if holds_untyped {
                        o.label("v9:packet-with-untyped-field-reported-as-error");
                        return o;
                    }
                    return Outcome::violation(at("V9 packet without any untyped field reported as an error".into()));
                }
                (v, other) => {
                    return Outcome::violation(at(format!("V{} packet reported as {:?}", v, obs::version_of(other))));
                }
            }
        }
        if let Some(d) = super::conf::cache_diff(&p, &model) {
            return Outcome::violation(format!("[feature off] after call {}: {}", ci, d));
        }
    }
    o
}

/// the oracle of the running build (replay uses the feature-on build)
pub fn oracle(case: &Case) -> Outcome {
    if case.param("class_odd_widths") != 0 {
        // outside the conformant envelope: only the cross-build comparison applies
        let mut o = Outcome::pass();
        o.nontrivial = true;
        o.label("known-elements-with-odd-widths");
        return o;
    }
    let unknown = case.param("class_unknown") != 0;
    if !PUF && unknown {
        return oracle_unknown_off(case);
    }
    let mut o = stream_outcome(case, StreamOpts { fixed: false, ..StreamOpts::ALL });
    // findings of C04/C05 (listed there) are not C17's subject
    o.known.clear();
    if !unknown {
        let recs = case.params.get("built_data_records").cloned().unwrap_or(1);
        if recs > 0 && o.labels.iter().any(|l| l == "v9" || l == "ipfix") {
            o.nontrivial = true;
        }
    }
    o
}

// ---------------------------------------------------------------------------------------
// the feature-off arm (bin/c17arm.rs calls this)
// ---------------------------------------------------------------------------------------

/// prints one line per case: `D <digest>` (class K) / `U <nontrivial 0|1>` (class U), or
/// `VIOL <message>` followed by the case as JSON, then exits
pub fn arm_main(class: &str, seed: u64, shard: u64, n: usize) {
    crate::engine::install_quiet_panic_hook();
    for (k, case) in gen_cases(class, seed, shard, n).iter().enumerate() {
        let o = crate::engine::guarded(&oracle, case);
        match &o.verdict {
            Verdict::Pass => {}
            Verdict::Violation(m) | Verdict::Harness(m) => {
                println!("VIOL {} (case {} of shard {})", m.replace('\n', " "), k, shard);
                println!("{}", serde_json::to_string(&case.to_json(usize::MAX)).unwrap());
                return;
            }
        }
        if class == "K" || class == "W" {
            println!("D {:016x}", observe_digest(case));
        } else {
            println!("U {}", o.nontrivial as u8);
        }
    }
}

// ---------------------------------------------------------------------------------------
// driver (feature-on build)
// ---------------------------------------------------------------------------------------

fn arm_path() -> String {
    std::env::var("NFV_C17ARM").unwrap_or_else(|_| {
        let td = std::env::var("NFV_TARGET").unwrap_or_else(|_| format!("{}/target", VERIF_DIR));
        format!("{}/nopuf/release/c17arm", td)
    })
}

fn fail(ctx: &Ctx, msg: String, case: Case) {
    let mut f = ctx.failure.lock().unwrap();
    if f.is_none() {
        *f = Some(crate::engine::Failure { msg, case });
    }
    ctx.stop.store(true, std::sync::atomic::Ordering::SeqCst);
}

pub fn run(ctx: &Ctx) {
    // (0) the feature-off build itself
    if let Ok(st) = std::env::var("NFV_NOPUF_BUILD") {
        if let Some(log) = st.strip_prefix("fail:") {
            let diag = std::fs::read_to_string(log).unwrap_or_default();
            let first = diag.lines().find(|l| l.starts_with("error")).unwrap_or("build failed").to_string();
            // only a compiler diagnostic located in the library's sources is a verdict about
            // the library; anything else (killed compiler, full disk, harness error) is not
            let repo = std::env::var("NFV_REPO").unwrap_or_else(|_| "/repo".into());
            let in_repo = diag.lines().any(|l| l.trim_start().starts_with("-->") && l.contains(&format!("{}/", repo.trim_end_matches('/'))));
            if !in_repo {
                *ctx.harness_err.lock().unwrap() = Some(format!("feature-off build failed without a diagnostic in {}: {} (log: {})", repo, first, log));
                ctx.stop.store(true, std::sync::atomic::Ordering::SeqCst);
                return;
            }
            let mut c = Case::default();
            c.params.insert("feature_off_build_failed".into(), 1);
            {
                let mut st = ctx.stats.lock().unwrap();
                st.evaluations += 1;
                st.phases.push(json!({"phase": "feature-off build", "result": "FAILED", "diagnostic": diag.lines().take(30).collect::<Vec<_>>() }));
            }
            fail(ctx, format!("cargo build --no-default-features fails: {} (diagnostic: {})", first, log), c);
            return;
        }
    }
    if !std::path::Path::new(&arm_path()).exists() {
        *ctx.harness_err.lock().unwrap() = Some(format!("feature-off arm {} missing (run through verif.sh)", arm_path()));
        return;
    }
    ctx.stats.lock().unwrap().phases.push(json!({"phase": "feature-off build", "result": "ok"}));
    ctx.replay_findings(&oracle);
    for (class, total) in [("K", ctx.n(60_000, 6_000_000)), ("U", ctx.n(60_000, 6_000_000)), ("W", ctx.n(30_000, 2_000_000))] {
        if ctx.failed() {
            break;
        }
        let t0 = std::time::Instant::now();
        let shards = ctx.threads;
        let per = (total as usize + shards - 1) / shards;
        std::thread::scope(|s| {
            for sh in 0..shards {
                std::thread::Builder::new()
                    .stack_size(256 << 20)
                    .spawn_scoped(s, move || {
                        let child = Command::new(arm_path())
                            .args([class, &ctx.seed.to_string(), &sh.to_string(), &per.to_string()])
                            .stdout(Stdio::piped())
                            .stderr(Stdio::null())
                            .spawn();
                        let cases = gen_cases(class, ctx.seed, sh as u64, per);
                        // feature-on arm, in process
                        let mut on: Vec<(Outcome, u64)> = vec![];
                        for c in &cases {
                            if ctx.failed() {
                                break;
                            }
                            let o = ctx.eval(c, &oracle);
                            let d = if (class == "K" || class == "W") && o.is_pass() { observe_digest(c) } else { 0 };
                            on.push((o, d));
                        }
                        let Ok(child) = child else {
                            ctx.harness_err.lock().unwrap().get_or_insert("cannot start the feature-off arm".into());
                            ctx.stop.store(true, std::sync::atomic::Ordering::SeqCst);
                            return;
                        };
                        let out = child.wait_with_output();
                        let Ok(out) = out else { return };
                        if ctx.failed() {
                            return;
                        }
                        if !out.status.success() {
                            ctx.harness_err.lock().unwrap().get_or_insert(format!("feature-off arm exited with {:?}", out.status));
                            ctx.stop.store(true, std::sync::atomic::Ordering::SeqCst);
                            return;
                        }
                        let text = String::from_utf8_lossy(&out.stdout);
                        let mut lines = text.lines();
                        let mut k = 0usize;
                        while let Some(l) = lines.next() {
                            if let Some(m) = l.strip_prefix("VIOL ") {
                                let case = lines
                                    .next()
                                    .and_then(|j| serde_json::from_str::<serde_json::Value>(j).ok())
                                    .and_then(|v| Case::from_json(&v))
                                    .unwrap_or_default();
                                let mut case = case;
                                case.params.insert("feature_off_arm".into(), 1);
                                if m.contains("HARNESS:") || m.contains("harness panicked") {
                                    ctx.harness_err.lock().unwrap().get_or_insert(format!("feature-off arm: {}", m));
                                    ctx.stop.store(true, std::sync::atomic::Ordering::SeqCst);
                                } else {
                                    fail(ctx, m.to_string(), case);
                                }
                                return;
                            }
                            if let Some(d) = l.strip_prefix("D ") {
                                let off = u64::from_str_radix(d, 16).unwrap_or(0);
                                if k < on.len() && on[k].1 != off {
                                    let mut c = cases[k].clone();
                                    c.params.insert("cross_build_difference".into(), 1);
                                    fail(
                                        ctx,
                                        "known-only case: results / re-export / common view differ between the default build and the build without parse_unknown_fields".into(),
                                        c,
                                    );
                                    return;
                                }
                            }
                            if l == "U 1" {
                                // non-triviality is decided by the feature-off oracle
                                ctx.stats.lock().unwrap().nontrivial.insert(cases.get(k).map(|c| c.digest()).unwrap_or(0));
                            }
                            k += 1;
                        }
                        if k != cases.len() {
                            ctx.harness_err.lock().unwrap().get_or_insert(format!("feature-off arm reported {} of {} cases", k, cases.len()));
                            ctx.stop.store(true, std::sync::atomic::Ordering::SeqCst);
                        }
                    })
                    .unwrap();
            }
        });
        ctx.stats.lock().unwrap().phases.push(json!({
            "phase": format!("class {} ({}), both builds", class, match class { "K" => "known-only templates, cross-build digest + reference decode", "W" => "known elements declared with odd widths, cross-build digest only", _ => "templates with an untyped field" }),
            "cases": per * shards, "shards": shards, "wall_s": t0.elapsed().as_secs_f64()
        }));
    }
}
