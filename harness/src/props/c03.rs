//! C03 - V5 and V7 packets decode exactly per the Cisco fixed layouts.

use super::{run_history, PropDef};
use crate::engine::{Call, Case, Ctx, Outcome};
use crate::gen;
use crate::refdec::{dec_fixed, iana_names, norm_name, Named, RefFixed};
use crate::wire::*;
use netflow_parser::static_versions::{v5, v7};
use netflow_parser::NetflowPacket;
use proptest::prelude::*;

pub const DEF: PropDef = PropDef {
    id: "C03",
    run,
    oracle,
    rule: "cases = buffers of 1..4 chained V5/V7 packets (header and 48/52-byte records as raw bytes: random, distinct-byte patterns, all-zero/all-ones/high-bit), count 0..40 (quick) and up to the datagram limit 1364/1259 (thorough), optionally followed by trailing bytes or cut at an arbitrary point; plus exhaustive enumeration of all 256 protocol numbers for both versions and of every truncation point of sample packets. Oracle = independent Cisco offset table (name, offset, width) for header and records, count records in order, consumed length 24+48*count / 24+52*count, protocol name = IANA keyword; short buffer => one Error and no V5/V7 element. non-trivial = count >= 2, or a field with its top bit set, or a protocol number outside {6,8,17}; distinct by digest.",
    assumptions: &["IANA protocol keywords were transcribed by hand into the harness (refdec::IANA_PROTO); names are compared after removing non-alphanumerics and case"],
};

fn ip(a: std::net::Ipv4Addr) -> u64 {
    u32::from(a) as u64
}

pub fn v5_named(p: &v5::V5) -> (Named, Vec<Named>, Vec<(u8, String)>) {
    let h = &p.header;
    let hdr: Named = vec![
        ("version", h.version as u64),
        ("count", h.count as u64),
        ("sys_up_time", h.sys_up_time as u64),
        ("unix_secs", h.unix_secs as u64),
        ("unix_nsecs", h.unix_nsecs as u64),
        ("flow_sequence", h.flow_sequence as u64),
        ("engine_type", h.engine_type as u64),
        ("engine_id", h.engine_id as u64),
        ("sampling_interval", h.sampling_interval as u64),
    ];
    let mut recs = vec![];
    let mut protos = vec![];
    for s in &p.flowsets {
        recs.push(vec![
            ("src_addr", ip(s.src_addr)),
            ("dst_addr", ip(s.dst_addr)),
            ("next_hop", ip(s.next_hop)),
            ("input", s.input as u64),
            ("output", s.output as u64),
            ("d_pkts", s.d_pkts as u64),
            ("d_octets", s.d_octets as u64),
            ("first", s.first as u64),
            ("last", s.last as u64),
            ("src_port", s.src_port as u64),
            ("dst_port", s.dst_port as u64),
            ("pad1", s.pad1 as u64),
            ("tcp_flags", s.tcp_flags as u64),
            ("protocol_number", s.protocol_number as u64),
            ("tos", s.tos as u64),
            ("src_as", s.src_as as u64),
            ("dst_as", s.dst_as as u64),
            ("src_mask", s.src_mask as u64),
            ("dst_mask", s.dst_mask as u64),
            ("pad2", s.pad2 as u64),
        ]);
        protos.push((s.protocol_number, format!("{:?}", s.protocol_type)));
    }
    (hdr, recs, protos)
}

pub fn v7_named(p: &v7::V7) -> (Named, Vec<Named>, Vec<(u8, String)>) {
    let h = &p.header;
    let hdr: Named = vec![
        ("version", h.version as u64),
        ("count", h.count as u64),
        ("sys_up_time", h.sys_up_time as u64),
        ("unix_secs", h.unix_secs as u64),
        ("unix_nsecs", h.unix_nsecs as u64),
        ("flow_sequence", h.flow_sequence as u64),
        ("reserved", h.reserved as u64),
    ];
    let mut recs = vec![];
    let mut protos = vec![];
    for s in &p.flowsets {
        recs.push(vec![
            ("src_addr", ip(s.src_addr)),
            ("dst_addr", ip(s.dst_addr)),
            ("next_hop", ip(s.next_hop)),
            ("input", s.input as u64),
            ("output", s.output as u64),
            ("d_pkts", s.d_pkts as u64),
            ("d_octets", s.d_octets as u64),
            ("first", s.first as u64),
            ("last", s.last as u64),
            ("src_port", s.src_port as u64),
            ("dst_port", s.dst_port as u64),
            ("flags_fields_valid", s.flags_fields_valid as u64),
            ("tcp_flags", s.tcp_flags as u64),
            ("protocol_number", s.protocol_number as u64),
            ("tos", s.tos as u64),
            ("src_as", s.src_as as u64),
            ("dst_as", s.dst_as as u64),
            ("src_mask", s.src_mask as u64),
            ("dst_mask", s.dst_mask as u64),
            ("flags_fields_invalid", s.flags_fields_invalid as u64),
            ("router_src", ip(s.router_src)),
        ]);
        protos.push((s.protocol_number, format!("{:?}", s.protocol_type)));
    }
    (hdr, recs, protos)
}

fn cmp_named(what: &str, exp: &Named, got: &Named) -> Result<(), String> {
    if exp.len() != got.len() {
        return Err(format!("{}: {} fields expected, {} reported", what, exp.len(), got.len()));
    }
    for ((en, ev), (gn, gv)) in exp.iter().zip(got.iter()) {
        if en != gn {
            return Err(format!("{}: harness field order mismatch {} vs {}", what, en, gn));
        }
        if ev != gv {
            return Err(format!("{}: field {} is {:#x}, bytes say {:#x}", what, en, gv, ev));
        }
    }
    Ok(())
}

/// compare one decoded fixed-format packet with the reference; used by C03, C08, C13
pub fn cmp_fixed(o: &mut Outcome, el: &NetflowPacket, r: &RefFixed) -> Result<(), String> {
    let (hdr, recs, protos) = match el {
        NetflowPacket::V5(p) if r.version == 5 => v5_named(p),
        NetflowPacket::V7(p) if r.version == 7 => v7_named(p),
        _ => return Err(format!("expected a V{} packet, got {:?}", r.version, crate::obs::version_of(el))),
    };
    cmp_named("header", &r.header, &hdr)?;
    if recs.len() != r.records.len() {
        return Err(format!("{} records expected, {} reported", r.records.len(), recs.len()));
    }
    for (i, (e, g)) in r.records.iter().zip(recs.iter()).enumerate() {
        cmp_named(&format!("record {}", i), e, g)?;
    }
    for (i, (n, name)) in protos.iter().enumerate() {
        let got = norm_name(name);
        if !crate::refdec::proto_name_ok(*n, &got) {
            // finding D4: the number->name table has four wrong entries
            let sig = format!("proto-name:{}:{}", n, got);
            let listed = matches!(
                (n, got.as_str()),
                (0, "unknown") | (1, "hopopt") | (144, "reserved") | (255, "unknown")
            );
            if listed {
                o.hit(sig);
            } else {
                return Err(format!(
                    "record {}: protocol number {} is named {} (IANA: {:?})",
                    i,
                    n,
                    name,
                    iana_names(*n)
                ));
            }
        }
        if ![6u8, 8, 17].contains(n) {
            o.nontrivial = true;
        }
    }
    if recs.len() >= 2 {
        o.nontrivial = true;
        o.label("count>=2");
    }
    if r.records.iter().flatten().chain(r.header.iter()).any(|(n, v)| {
        let w = match *n {
            "version" | "count" => return false,
            "engine_type" | "engine_id" | "pad1" | "tcp_flags" | "protocol_number" | "tos" | "src_mask"
            | "dst_mask" | "flags_fields_valid" => 8,
            "input" | "output" | "src_port" | "dst_port" | "src_as" | "dst_as" | "pad2"
            | "flags_fields_invalid" | "sampling_interval" => 16,
            _ => 32,
        };
        v >> (w - 1) & 1 == 1
    }) {
        o.nontrivial = true;
        o.label("top-bit");
    }
    o.label(format!("v{}", r.version));
    if recs.is_empty() {
        o.label("count=0");
    }
    Ok(())
}

pub fn oracle(case: &Case) -> Outcome {
    let (_, calls) = run_history(case);
    let mut o = Outcome::pass();
    for (ci, (pi, buf, res)) in calls.iter().enumerate() {
        let allowed = case.allowed_of(*pi);
        let mut off = 0usize;
        let mut i = 0usize;
        loop {
            if off >= buf.len() {
                if i != res.len() {
                    return Outcome::violation(format!("call {}: {} extra element(s) after the end of the buffer", ci, res.len() - i));
                }
                break;
            }
            if buf.len() - off < 2 {
                break; // C02's business
            }
            let v = be16(buf, off);
            if (v != 5 && v != 7) || !allowed.contains(&v) {
                break; // not a V5/V7 packet, or filtered by the allowed set: outside C03
            }
            match dec_fixed(&buf[off..]) {
                Some(r) => {
                    let Some(el) = res.get(i) else {
                        return Outcome::violation(format!(
                            "call {}: complete V{} packet at offset {} ({} records) is not reported",
                            ci,
                            v,
                            off,
                            r.records.len()
                        ));
                    };
                    if let Err(m) = cmp_fixed(&mut o, el, &r) {
                        return Outcome::violation(format!("call {} packet {} at offset {}: {}", ci, i, off, m));
                    }
                    off += r.len;
                    i += 1;
                }
                None => {
                    // shorter than announced: exactly one Error, last, carrying the rest
                    o.label("short");
                    match res.get(i) {
                        Some(NetflowPacket::Error(e)) if i + 1 == res.len() => {
                            if e.remaining != buf[off..] {
                                return Outcome::violation(format!(
                                    "call {}: error.remaining differs from the truncated packet at offset {}",
                                    ci, off
                                ));
                            }
                        }
                        other => {
                            return Outcome::violation(format!(
                                "call {}: truncated V{} packet at offset {} ({} of {} bytes) reported as {:?} (elements: {})",
                                ci,
                                v,
                                off,
                                buf.len() - off,
                                if buf.len() - off >= 4 { 24 + (if v == 5 { 48 } else { 52 }) * be16(buf, off + 2) as usize } else { 24 },
                                other.map(crate::obs::version_of),
                                res.len()
                            ));
                        }
                    }
                    break;
                }
            }
        }
    }
    o
}

fn fixed_case(max_recs: usize, max_pkts: usize) -> BoxedStrategy<Case> {
    let tail = prop_oneof![
        3 => Just(vec![]),
        1 => proptest::collection::vec(any::<u8>(), 1..30),
        1 => Just(vec![0u8, 5]),
        1 => Just(vec![0u8, 7, 0, 1]),
        1 => Just(vec![0u8]),
    ];
    (
        proptest::collection::vec(gen::fixed_plan(max_recs), 1..=max_pkts),
        tail,
        proptest::option::weighted(0.25, any::<u16>()),
    )
        .prop_map(|(pkts, tail, cut)| {
            let plan = gen::StreamPlan {
                pool: gen::Pool { ids: vec![], v9: vec![], ipfix: vec![] },
                calls: vec![pkts],
            };
            let b = gen::build(&plan, &gen::BuildOpts::STRICT);
            let mut buf = b.calls[0].buf();
            buf.extend(tail);
            if let Some(c) = cut {
                let n = ((c as usize * buf.len()) >> 16).max(1);
                buf.truncate(n);
            }
            buf.truncate(65535);
            Case::single(buf)
        })
        .boxed()
}

fn one_record(version: u16, proto: u8, fill: u8) -> Vec<u8> {
    let rl = if version == 5 { 48 } else { 52 };
    let mut r: Vec<u8> = (0..rl).map(|i| fill.wrapping_add(i as u8)).collect();
    r[38] = proto;
    enc_fixed(version, 1, &[9; 20], &[r])
}

pub fn run(ctx: &Ctx) {
    ctx.replay_findings(&oracle);
    // exhaustive: every protocol number, both versions
    let mut cases = vec![];
    for v in [5u16, 7] {
        for p in 0..=255u8 {
            cases.push(Case::single(one_record(v, p, p.wrapping_mul(7))));
        }
    }
    ctx.enumerate("all-256-protocol-numbers-x-2-versions", cases, true, &oracle);
    // exhaustive: every truncation point of sample packets (alone and after a complete packet)
    let mut cases = vec![];
    for v in [5u16, 7] {
        let rl = if v == 5 { 48 } else { 52 };
        let recs: Vec<Vec<u8>> = (0..3).map(|k| (0..rl).map(|i| (k * 60 + i + 1) as u8).collect()).collect();
        let pkt = enc_fixed(v, 3, &[0xa5; 20], &recs);
        let first = enc_fixed(12 - v, 1, &[1; 20], &[vec![3u8; if v == 5 { 52 } else { 48 }]]);
        for cut in 1..pkt.len() {
            cases.push(Case::single(pkt[..cut].to_vec()));
            let mut b = first.clone();
            b.extend_from_slice(&pkt[..cut]);
            cases.push(Case {
                calls: vec![Call { parser: 0, packets: vec![first.clone(), pkt[..cut].to_vec()] }],
                ..Case::single(vec![])
            });
        }
    }
    ctx.enumerate("every-truncation-point", cases, true, &oracle);
    ctx.search("random-packets", ctx.n(800_000, 40_000_000), &|| fixed_case(6, 3), &oracle);
    ctx.search("more-records", ctx.n(30_000, 1_000_000), &|| fixed_case(40, 2), &oracle);
    if ctx.thorough() {
        ctx.search("datagram-limit", 40_000, &|| fixed_case(1364, 1), &oracle);
    }
    // full-size packets at the datagram limit
    let mut cases = vec![];
    for (v, n, rl) in [(5u16, 1364usize, 48usize), (7, 1259, 52)] {
        let recs: Vec<Vec<u8>> = (0..n).map(|k| (0..rl).map(|i| (k * 31 + i * 7) as u8).collect()).collect();
        cases.push(Case::single(enc_fixed(v, n as u16, &[0x5a; 20], &recs)));
        cases.push(Case::single(enc_fixed(v, 0, &[0x5a; 20], &[])));
        // count larger than what is present
        cases.push(Case::single(enc_fixed(v, 0xffff, &[0x5a; 20], &recs[..2])));
    }
    ctx.enumerate("datagram-limit-and-count-extremes", cases, false, &oracle);
}
