//! C01 - parsing untrusted bytes never crashes, aborts, overflows the stack or hangs.
//!
//! Cases are executed in crash-isolated worker subprocesses (`bin/worker.rs`); every case
//! runs on a fresh thread with the default 2 MiB stack. The worker is built in two
//! profiles (release, and `o0` = unoptimised library with overflow checks, what `cargo
//! run`/`cargo test` users get).

use super::PropDef;
use crate::engine::{Call, Case, Ctx, Outcome, Verdict, VERIF_DIR};
use crate::obs;
use crate::wire::*;
use netflow_parser::variable_versions::{ipfix, v9};
use netflow_parser::NetflowPacket;
use serde_json::{json, Value};
use std::collections::BTreeSet;
use std::process::{Command, Stdio};
use std::time::{Duration, Instant};

pub const DEF: PropDef = PropDef {
    id: "C01",
    run,
    oracle: exec_on_small_stack,
    rule: "cases = (allowed set, history of 1..7 buffers <= 65535 bytes): 2/3 hostile (conformant streams over hostile template pools - zero-length fields, zero/huge counts, ids < 256 - with header/length mutations, truncation, splicing, raw bytes behind a version prefix, random bytes), 1/3 conformant wide streams; plus a deterministic depth/size stress family at the 64 KiB limit (maximal chains of minimal packets per version, maximal 1-byte records per set, maximal sets per packet, maximal templates per set, maximal fields per template, failing-record retry, V5/V7 record counts around 30 and at the datagram limit, histories of 66,000 calls). Every case runs in a worker subprocess on a fresh 2 MiB thread: parse the whole history on one parser, then to_be_bytes / as_netflow_common / serde_json::to_string on every element and parse_bytes_as_netflow_common_flowsets on a twin parser. Oracle = returns normally (no panic, no abnormal process exit). non-trivial = a call after the first decodes data under a template cached by an earlier call, or some call returns >= 2 elements, or the case is from the stress family; distinct by digest.",
    assumptions: &[
        "non-termination cannot be demonstrated by generated search: a no-progress watchdog reports INCONCLUSIVE (exit 2), never a violation",
        "stack depth is checked for the two cargo profiles (release, dev-like o0) of this toolchain on x86-64",
        "memory exhaustion is C15's subject: a worker whose live heap exceeds the cap (2 GiB) ends the case as resource-capped and is not counted as a violation",
    ],
};

/// Execute a history and all follow-up conversions on the current thread.
/// Returns the labels / non-triviality; panics propagate to the caller.
pub fn exec_case(case: &Case) -> Outcome {
    let mut o = Outcome::pass();
    let n = case.n_parsers();
    let mut parsers: Vec<_> = (0..n).map(|i| obs::new_parser(&case.allowed_of(i))).collect();
    let mut twins: Vec<_> = (0..n).map(|i| obs::new_parser(&case.allowed_of(i))).collect();
    for (ci, c) in case.calls.iter().enumerate() {
        let buf = c.buf();
        let before: BTreeSet<(Proto, u16)> = obs::lib_cache(&parsers[c.parser])
            .keys()
            .map(|(p, _, id)| (*p, *id))
            .collect();
        let res = parsers[c.parser].parse_bytes(&buf);
        if res.len() >= 2 {
            o.nontrivial = true;
            o.label("multi-element");
        }
        for el in &res {
            match el {
                NetflowPacket::V5(p) => {
                    let _ = std::hint::black_box(p.to_be_bytes());
                    o.label("v5");
                }
                NetflowPacket::V7(p) => {
                    let _ = std::hint::black_box(p.to_be_bytes());
                    o.label("v7");
                }
                NetflowPacket::V9(p) => {
                    let _ = std::hint::black_box(p.to_be_bytes());
                    o.label("v9");
                    for f in &p.flowsets {
                        let is_data = matches!(
                            f.body,
                            v9::FlowSetBody::Data(_) | v9::FlowSetBody::OptionsData(_)
                        );
                        if is_data {
                            o.label("v9-data");
                            if ci > 0 && before.contains(&(Proto::V9, f.header.flowset_id)) {
                                o.nontrivial = true;
                                o.label("data-under-earlier-template");
                            }
                        }
                    }
                }
                NetflowPacket::IPFix(p) => {
                    let _ = std::hint::black_box(p.to_be_bytes());
                    o.label("ipfix");
                    for f in &p.flowsets {
                        let is_data = matches!(
                            f.body,
                            ipfix::FlowSetBody::Data(_) | ipfix::FlowSetBody::OptionsData(_)
                        );
                        if is_data {
                            o.label("ipfix-data");
                            if ci > 0 && before.contains(&(Proto::Ipfix, f.header.header_id)) {
                                o.nontrivial = true;
                                o.label("data-under-earlier-template");
                            }
                        }
                    }
                }
                NetflowPacket::Error(_) => o.label("error"),
            }
            let _ = std::hint::black_box(el.as_netflow_common());
            let _ = std::hint::black_box(serde_json::to_string(el));
        }
        let _ = std::hint::black_box(serde_json::to_string(&res));
        let _ = std::hint::black_box(twins[c.parser].parse_bytes_as_netflow_common_flowsets(&buf));
    }
    if case.param("stress") != 0 {
        o.nontrivial = true;
        o.label("stress-family");
    }
    if case.params.contains_key("stress_mutated") {
        o.nontrivial = true;
        o.label("stress-family-mutated");
    }
    o
}

/// run `exec_case` on a fresh thread with the default 2 MiB stack, panics -> violation
pub fn exec_on_small_stack(case: &Case) -> Outcome {
    let c = case.clone();
    let h = std::thread::Builder::new()
        .stack_size(2 << 20)
        .spawn(move || {
            match std::panic::catch_unwind(std::panic::AssertUnwindSafe(|| exec_case(&c))) {
                Ok(o) => o,
                Err(_) => {
                    let m = crate::engine::take_panic_msg();
                    if crate::engine::is_harness_panic(&m) {
                        Outcome::harness(format!("harness panicked: {}", m))
                    } else {
                        Outcome::violation(format!("panic: {}", m))
                    }
                }
            }
        })
        .expect("spawn");
    match h.join() {
        Ok(o) => o,
        Err(_) => Outcome::violation("case thread died"),
    }
}

// ---------------------------------------------------------------------------------------
// stress family
// ---------------------------------------------------------------------------------------

fn stress(name: &str, bufs: Vec<Vec<u8>>) -> (String, Case) {
    let mut c = Case::history(bufs);
    c.params.insert("stress".into(), 1);
    (name.to_string(), c)
}

fn v9_pkt(count: u16, body: &[u8]) -> Vec<u8> {
    let mut w = W::default();
    enc_v9_header(&mut w, count, &[1, 2, 3, 4]);
    w.bytes(body);
    w.0
}
fn ipfix_msg(body: &[u8]) -> Vec<u8> {
    let mut w = W::default();
    enc_ipfix_header(&mut w, (16 + body.len()) as u16, &[1, 2, 3]);
    w.bytes(body);
    w.0
}
fn tpl_set(proto: Proto, id: u16, def: &Def) -> Vec<u8> {
    let mut r = W::default();
    enc_template_record(&mut r, proto, id, def);
    let mut s = W::default();
    enc_set(&mut s, template_set_id(proto, def.kind), &r.0, 0);
    s.0
}
fn plain(fields: Vec<(u16, u16)>) -> Def {
    Def {
        kind: Kind::Plain,
        scope_n: 0,
        fields: fields
            .into_iter()
            .map(|(ie, len)| FieldSpec { ie, len, ent: None })
            .collect(),
    }
}
fn data_set(id: u16, body_len: usize, fill: u8) -> Vec<u8> {
    let mut s = W::default();
    enc_set(&mut s, id, &vec![fill; body_len], 0);
    s.0
}

pub fn stress_family() -> Vec<(String, Case)> {
    let mut v = vec![];
    // maximal chains of minimal packets
    let chain = |pkt: Vec<u8>| -> Vec<u8> {
        let n = 65535 / pkt.len();
        pkt.repeat(n)
    };
    v.push(stress("chain-ipfix-16B", vec![chain(ipfix_msg(&[]))]));
    v.push(stress("chain-v9-20B", vec![chain(v9_pkt(0, &[]))]));
    v.push(stress("chain-v5-24B", vec![chain(enc_fixed(5, 0, &[0; 20], &[]))]));
    v.push(stress("chain-v7-24B", vec![chain(enc_fixed(7, 0, &[0; 20], &[]))]));
    // V5/V7 packets with the record counts real exporters use at most (30 resp. 28), the
    // counts around them, and as many records as a datagram holds
    for (ver, rl) in [(5u16, 48usize), (7, 52)] {
        for n in [27usize, 28, 29, 30, 31, 32, 255, 256, (65535 - 24) / rl] {
            let recs: Vec<Vec<u8>> = (0..n).map(|k| (0..rl).map(|i| (k * 7 + i * 3 + 1) as u8).collect()).collect();
            v.push(stress(&format!("v{}-{}-records", ver, n), vec![enc_fixed(ver, n as u16, &[3; 20], &recs)]));
        }
    }
    // histories longer than any 16-bit counter: 66,000 calls of one small packet each
    {
        let d = plain(vec![(1, 1)]);
        let mut h9 = vec![v9_pkt(1, &tpl_set(Proto::V9, 256, &d))];
        let mut h10 = vec![ipfix_msg(&tpl_set(Proto::Ipfix, 256, &d))];
        for i in 0..66_000u32 {
            h9.push(v9_pkt(1, &data_set(256, 1 + (i % 3) as usize, 7)));
            h10.push(ipfix_msg(&data_set(256, 1 + (i % 3) as usize, 7)));
        }
        v.push(stress("history-66000-v9-packets", h9));
        v.push(stress("history-66000-ipfix-messages", h10));
        // ... and 66,000 redefinitions of one id (two layouts in turn, data after each)
        for proto in [Proto::V9, Proto::Ipfix] {
            for kinds in [false, true] {
                let mut h = vec![];
                for i in 0..66_000u32 {
                    let mut d = plain(vec![(1, if i % 2 == 0 { 4 } else { 8 })]);
                    if kinds && i % 2 == 1 {
                        // alternate between a template and an options template of the same id
                        d = Def { kind: Kind::Options, scope_n: 1, fields: vec![FieldSpec { ie: 1, len: 4, ent: None }, FieldSpec { ie: 2, len: 4, ent: None }] };
                    }
                    let mut r = W::default();
                    enc_template_record(&mut r, proto, 300, &d);
                    let mut b = W::default();
                    let pad = (4 - r.0.len() % 4) % 4;
                    enc_set(&mut b, template_set_id(proto, d.kind), &r.0, pad);
                    b.bytes(&data_set(300, 8, 3));
                    h.push(match proto {
                        Proto::V9 => v9_pkt(2, &b.0),
                        Proto::Ipfix => ipfix_msg(&b.0),
                    });
                }
                v.push(stress(&format!("history-66000-redefinitions-{}-{}", if proto == Proto::V9 { "v9" } else { "ipfix" }, if kinds { "alternating-kinds" } else { "two-layouts" }), h));
            }
        }
    }
    // chain of ipfix messages that each carry data under a cached template
    {
        let d = plain(vec![(1, 1)]);
        let t = ipfix_msg(&tpl_set(Proto::Ipfix, 256, &d));
        let m = ipfix_msg(&data_set(256, 1, 7));
        v.push(stress("chain-ipfix-data", vec![t, chain(m)]));
        let t9 = v9_pkt(1, &tpl_set(Proto::V9, 256, &d));
        let m9 = v9_pkt(1, &data_set(256, 1, 7));
        v.push(stress("chain-v9-data", vec![t9, chain(m9)]));
    }
    // maximal number of 1-byte records in one set
    for (nm, ie) in [("u8", 5u16), ("string", 82), ("unknown", 1000)] {
        let d = plain(vec![(ie, 1)]);
        let t = ipfix_msg(&tpl_set(Proto::Ipfix, 300, &d));
        let m = ipfix_msg(&data_set(300, 65535 - 16 - 4, 0x41));
        v.push(stress(&format!("ipfix-max-1B-records-{}", nm), vec![t, m]));
        let t9 = v9_pkt(1, &tpl_set(Proto::V9, 300, &d));
        let m9 = v9_pkt(1, &data_set(300, 65535 - 20 - 4, 0x41));
        v.push(stress(&format!("v9-max-1B-records-{}", nm), vec![t9, m9]));
    }
    // variable-length field, every record = one length byte 0
    {
        let d = plain(vec![(82, VARLEN)]);
        let t = ipfix_msg(&tpl_set(Proto::Ipfix, 301, &d));
        let m = ipfix_msg(&data_set(301, 65535 - 16 - 4, 0));
        v.push(stress("ipfix-max-varlen-empty-records", vec![t, m]));
    }
    // options templates, 1-byte scope + 1-byte option
    {
        let d = Def {
            kind: Kind::Options,
            scope_n: 1,
            fields: vec![
                FieldSpec { ie: 1, len: 1, ent: None },
                FieldSpec { ie: 5, len: 1, ent: None },
            ],
        };
        let t = ipfix_msg(&tpl_set(Proto::Ipfix, 302, &d));
        let m = ipfix_msg(&data_set(302, 65535 - 16 - 4, 1));
        v.push(stress("ipfix-max-options-records", vec![t, m]));
        let t9 = v9_pkt(1, &tpl_set(Proto::V9, 302, &d));
        let m9 = v9_pkt(1, &data_set(302, 65535 - 20 - 4, 1));
        v.push(stress("v9-max-options-records", vec![t9, m9]));
    }
    // maximal number of sets / flowsets per packet (empty data sets of a cached template)
    {
        let d = plain(vec![(1, 4)]);
        let t = ipfix_msg(&tpl_set(Proto::Ipfix, 256, &d));
        let sets = data_set(256, 0, 0).repeat((65535 - 16) / 4);
        v.push(stress("ipfix-max-empty-sets", vec![t, ipfix_msg(&sets)]));
        let sets1 = data_set(256, 4, 9).repeat((65535 - 16) / 8);
        v.push(stress("ipfix-max-1rec-sets", vec![ipfix_msg(&tpl_set(Proto::Ipfix, 256, &d)), ipfix_msg(&sets1)]));
        let t9 = v9_pkt(1, &tpl_set(Proto::V9, 256, &d));
        let fs = data_set(256, 0, 0).repeat((65535 - 20) / 4);
        v.push(stress("v9-max-empty-flowsets", vec![t9.clone(), v9_pkt(0xffff, &fs)]));
        let fs1 = data_set(256, 4, 9).repeat((65535 - 20) / 8);
        v.push(stress("v9-max-1rec-flowsets", vec![t9, v9_pkt(0xffff, &fs1)]));
        // flowsets with length 0 (consume 4 bytes each)
        let z: Vec<u8> = [0x01, 0x00, 0x00, 0x00].repeat((65535 - 20) / 4);
        v.push(stress("v9-max-length0-flowsets", vec![v9_pkt(1, &tpl_set(Proto::V9, 256, &d)), v9_pkt(0xffff, &z)]));
    }
    // maximal number of template records per template flowset
    {
        let recs: Vec<u8> = [0x01, 0x00, 0x00, 0x00].repeat((65535 - 20 - 4) / 4);
        let mut s = W::default();
        enc_set(&mut s, 0, &recs, 0);
        v.push(stress("v9-max-empty-templates", vec![v9_pkt(1, &s.0), v9_pkt(1, &data_set(256, 64, 1))]));
        let recs: Vec<u8> = [0x01, 0x00, 0x00, 0x01, 0x00, 0x01, 0x00, 0x01].repeat((65535 - 20 - 4) / 8);
        let mut s = W::default();
        enc_set(&mut s, 0, &recs, 0);
        v.push(stress("v9-max-1field-templates", vec![v9_pkt(1, &s.0)]));
        let recs: Vec<u8> = [0x01, 0x00, 0x00, 0x00, 0x00, 0x00].repeat((65535 - 20 - 4) / 6);
        let mut s = W::default();
        enc_set(&mut s, 1, &recs, 0);
        v.push(stress("v9-max-empty-options-templates", vec![v9_pkt(1, &s.0), v9_pkt(1, &data_set(256, 64, 1))]));
    }
    // maximal number of fields per template, then data under it
    {
        let n = (65535 - 20 - 4 - 4) / 4;
        let d = plain((0..n).map(|i| ((i % 60 + 1) as u16, 1)).collect());
        let t9 = v9_pkt(1, &tpl_set(Proto::V9, 400, &d));
        v.push(stress("v9-max-fields-template", vec![t9, v9_pkt(1, &data_set(400, 60000, 3))]));
        let n = (65535 - 16 - 4 - 4) / 4;
        let d = plain((0..n).map(|i| ((i % 60 + 1) as u16, 1)).collect());
        let t = ipfix_msg(&tpl_set(Proto::Ipfix, 400, &d));
        v.push(stress("ipfix-max-fields-template", vec![t, ipfix_msg(&data_set(400, 60000, 3))]));
        // enterprise fields (8 bytes each)
        let n = (65535 - 16 - 4 - 4) / 8;
        let d = Def {
            kind: Kind::Plain,
            scope_n: 0,
            fields: (0..n)
                .map(|i| FieldSpec { ie: i as u16 & 0x7fff, len: 1, ent: Some(9) })
                .collect(),
        };
        let t = ipfix_msg(&tpl_set(Proto::Ipfix, 401, &d));
        v.push(stress("ipfix-max-enterprise-fields", vec![t, ipfix_msg(&data_set(401, 60000, 3))]));
    }
    // zero-length fields x records, bounded (z * r <= 2e6) - amplification is C15's subject
    {
        let mut f: Vec<(u16, u16)> = (0..2000).map(|_| (82u16, 0u16)).collect();
        f.push((5, 1));
        let d = plain(f);
        let t9 = v9_pkt(1, &tpl_set(Proto::V9, 500, &d));
        v.push(stress("v9-zero-length-fields", vec![t9, v9_pkt(1, &data_set(500, 1000, 1))]));
        let t = ipfix_msg(&tpl_set(Proto::Ipfix, 500, &d));
        v.push(stress("ipfix-zero-length-fields", vec![t, ipfix_msg(&data_set(500, 1000, 1))]));
    }
    // templates whose total size is 0 / only zero-length fields / no fields
    {
        for (nm, d) in [
            ("no-fields", plain(vec![])),
            ("only-zero-length", plain(vec![(82, 0), (83, 0)])),
        ] {
            let t9 = v9_pkt(1, &tpl_set(Proto::V9, 600, &d));
            v.push(stress(&format!("v9-template-{}", nm), vec![t9, v9_pkt(1, &data_set(600, 65000, 1))]));
            let t = ipfix_msg(&tpl_set(Proto::Ipfix, 600, &d));
            v.push(stress(&format!("ipfix-template-{}", nm), vec![t, ipfix_msg(&data_set(600, 65000, 1))]));
        }
    }
    // failing records: unsupported width 5 for an unsigned field -> retry loop
    {
        let d = plain(vec![(1, 5)]);
        let t9 = v9_pkt(1, &tpl_set(Proto::V9, 700, &d));
        v.push(stress("v9-failing-records", vec![t9, v9_pkt(1, &data_set(700, 65000, 1))]));
        let d = plain(vec![(5, 1), (4, 1)]);
        let t9 = v9_pkt(1, &tpl_set(Proto::V9, 701, &d));
        v.push(stress("v9-protocol-bytes-200", vec![t9, v9_pkt(1, &data_set(701, 65000, 200))]));
    }
    // huge declared widths
    {
        let d = plain(vec![(82, 65535), (82, 65535), (1, 4)]);
        let t9 = v9_pkt(1, &tpl_set(Proto::V9, 800, &d));
        v.push(stress("v9-width-overflow", vec![t9, v9_pkt(1, &data_set(800, 65000, 1))]));
        let d = plain(vec![(82, 65534), (82, 65534), (1, 4)]);
        let t = ipfix_msg(&tpl_set(Proto::Ipfix, 800, &d));
        v.push(stress("ipfix-width-overflow", vec![t, ipfix_msg(&data_set(800, 65000, 1))]));
    }
    // V5/V7 with maximal counts: complete and announced-but-absent
    {
        v.push(stress("v5-count-1364", vec![enc_fixed(5, 1364, &[1; 20], &vec![vec![7u8; 48]; 1364])]));
        v.push(stress("v7-count-1259", vec![enc_fixed(7, 1259, &[1; 20], &vec![vec![7u8; 52]; 1259])]));
        v.push(stress("v5-count-65535-short", vec![enc_fixed(5, 65535, &[1; 20], &[])]));
        v.push(stress("v7-count-65535-short", vec![enc_fixed(7, 65535, &[1; 20], &vec![vec![7u8; 52]; 3])]));
    }
    v
}

/// a stress-family case with 1..3 hostile mutations applied to its buffers: datagram-sized
/// hostile input (the random generators stay below a few KiB)
pub fn stress_mut_case() -> proptest::strategy::BoxedStrategy<Case> {
    use proptest::prelude::*;
    let fam: std::sync::Arc<Vec<(String, Case)>> = std::sync::Arc::new(stress_family());
    let n = fam.len();
    (0..n, proptest::collection::vec((any::<u8>(), crate::gen::mutation()), 1..=3), crate::gen::allowed_set())
        .prop_map(move |(i, muts, allowed)| {
            let mut c = fam[i].1.clone();
            c.params.remove("stress");
            c.params.insert("stress_mutated".into(), i as i64);
            let mut bufs: Vec<Vec<u8>> = c.calls.iter().map(|x| x.buf()).collect();
            for (ci, m) in &muts {
                let k = (*ci as usize * bufs.len()) >> 8;
                crate::gen::apply_mut(&mut bufs[k], m);
                bufs[k].truncate(65535);
            }
            c.calls = bufs.into_iter().map(Call::one).collect();
            c.allowed = vec![allowed];
            c
        })
        .boxed()
}

// ---------------------------------------------------------------------------------------
// parent side: driving workers
// ---------------------------------------------------------------------------------------

fn worker_path(profile: &str) -> String {
    let var = format!("NFV_WORKER_{}", profile.to_uppercase());
    std::env::var(var).unwrap_or_else(|_| {
        let td = std::env::var("NFV_TARGET").unwrap_or_else(|_| format!("{}/target", VERIF_DIR));
        format!("{}/{}/worker", td, profile)
    })
}

fn scratch_dir() -> String {
    let base = if std::path::Path::new("/dev/shm").is_dir() {
        "/dev/shm".to_string()
    } else {
        format!("{}/target", VERIF_DIR)
    };
    let d = format!("{}/nfv-c01-{}", base, std::process::id());
    let _ = std::fs::create_dir_all(&d);
    d
}

#[derive(Debug)]
pub enum ExecResult {
    Pass,
    Panic(String),
    Crash(String),
    Capped,
    Hang,
    /// the run says nothing about the library (worker could not start, SIGKILL, harness exit code)
    Infra(String),
}

/// Run one case in a fresh worker and confirm anything abnormal: a crash of the library is
/// reproducible, so it must show again in a second fresh worker before it is reported;
/// circumstances of the machine (worker cannot be started, killed by SIGKILL - the OOM
/// killer -, harness-internal exit codes) are retried and, if they persist, end as `Infra`
/// (inconclusive), never as a violation.
pub fn exec_in_worker(profile: &str, case: &Case, dir: &str, tag: &str) -> ExecResult {
    let first = exec_once(profile, case, dir, tag);
    match first {
        ExecResult::Pass | ExecResult::Capped | ExecResult::Hang => first,
        ExecResult::Panic(_) | ExecResult::Crash(_) => {
            match exec_once(profile, case, dir, &format!("{}-confirm", tag)) {
                ExecResult::Pass | ExecResult::Capped => {
                    // not reproducible: one more run decides
                    match exec_once(profile, case, dir, &format!("{}-confirm2", tag)) {
                        r @ (ExecResult::Panic(_) | ExecResult::Crash(_)) => r,
                        _ => ExecResult::Infra(format!("abnormal end not reproducible in two further fresh workers (first run: {:?})", first)),
                    }
                }
                ExecResult::Infra(_) | ExecResult::Hang => first,
                r => r,
            }
        }
        ExecResult::Infra(_) => {
            std::thread::sleep(Duration::from_millis(500));
            match exec_once(profile, case, dir, &format!("{}-retry", tag)) {
                ExecResult::Infra(_) => {
                    std::thread::sleep(Duration::from_secs(3));
                    exec_once(profile, case, dir, &format!("{}-retry2", tag))
                }
                r => r,
            }
        }
    }
}

fn exec_once(profile: &str, case: &Case, dir: &str, tag: &str) -> ExecResult {
    let path = format!("{}/exec-{}.json", dir, tag);
    std::fs::write(&path, serde_json::to_string(&case.to_json(usize::MAX)).unwrap()).unwrap();
    let mut child = match Command::new(worker_path(profile))
        .args(["exec", &path])
        .stdout(Stdio::piped())
        .stderr(Stdio::piped())
        .spawn()
    {
        Ok(c) => c,
        Err(e) => return ExecResult::Infra(format!("cannot start worker {}: {}", worker_path(profile), e)),
    };
    let t0 = Instant::now();
    loop {
        match child.try_wait() {
            Ok(Some(_)) => break,
            Ok(None) => {
                if t0.elapsed() > Duration::from_secs(450) {
                    let _ = child.kill();
                    let _ = child.wait();
                    return ExecResult::Hang;
                }
                std::thread::sleep(Duration::from_millis(5));
            }
            Err(_) => break,
        }
    }
    let out = child.wait_with_output().unwrap();
    let stdout = String::from_utf8_lossy(&out.stdout).to_string();
    let stderr = String::from_utf8_lossy(&out.stderr).to_string();
    match out.status.code() {
        Some(0) => ExecResult::Pass,
        Some(1) => ExecResult::Panic(stdout.trim().to_string()),
        Some(77) => ExecResult::Capped,
        // 2 = harness error inside the worker, 101 = panic outside the guarded section
        Some(c @ (2 | 101)) => ExecResult::Infra(format!("worker exit code {} {}", c, stderr.lines().last().unwrap_or(""))),
        Some(c) => ExecResult::Crash(format!("exit code {} {}", c, stderr.lines().last().unwrap_or(""))),
        None => {
            use std::os::unix::process::ExitStatusExt;
            let sig = out.status.signal().unwrap_or(0);
            if sig == 9 {
                return ExecResult::Infra("worker killed by SIGKILL (out-of-memory killer?)".into());
            }
            let why = stderr
                .lines()
                .find(|l| l.contains("overflowed its stack"))
                .map(|s| s.trim().to_string())
                .unwrap_or_else(|| stderr.lines().last().unwrap_or("").to_string());
            ExecResult::Crash(format!("killed by signal {} ({})", sig, why))
        }
    }
}

fn fails(profile: &str, case: &Case, dir: &str) -> Option<String> {
    match exec_in_worker(profile, case, dir, "min") {
        ExecResult::Panic(m) => Some(m),
        ExecResult::Crash(m) => Some(m),
        _ => None,
    }
}

/// greedy minimisation of a crashing case, every candidate in a fresh worker
fn minimise(profile: &str, case: &Case, dir: &str) -> Case {
    let mut best = case.clone();
    let mut budget = 60;
    // drop calls
    let mut i = best.calls.len();
    while i > 0 && budget > 0 {
        i -= 1;
        if best.calls.len() <= 1 {
            break;
        }
        let mut c = best.clone();
        c.calls.remove(i);
        budget -= 1;
        if fails(profile, &c, dir).is_some() {
            best = c;
        }
    }
    // shorten buffers from the end
    for ci in 0..best.calls.len() {
        let mut buf = best.calls[ci].buf();
        let mut step = buf.len() / 2;
        while step >= 1 && budget > 0 {
            if buf.len() <= step {
                step /= 2;
                continue;
            }
            let mut c = best.clone();
            let nb = buf[..buf.len() - step].to_vec();
            c.calls[ci] = Call { parser: best.calls[ci].parser, packets: vec![nb.clone()] };
            budget -= 1;
            if fails(profile, &c, dir).is_some() {
                best = c;
                buf = nb;
            } else {
                step /= 2;
            }
        }
    }
    best
}

fn merge_worker_output(ctx: &Ctx, v: &Value) {
    let mut st = ctx.stats.lock().unwrap();
    st.evaluations += v["evaluations"].as_u64().unwrap_or(0);
    if let Some(a) = v["nontrivial"].as_array() {
        for d in a {
            if let Some(x) = d.as_u64() {
                st.nontrivial.insert(x);
            }
        }
    }
    if let Some(o) = v["labels"].as_object() {
        for (k, n) in o {
            *st.labels.entry(k.clone()).or_insert(0) += n.as_u64().unwrap_or(0);
        }
    }
    if let Some(a) = v["samples"].as_array() {
        for s in a {
            if st.samples.len() < 4 {
                st.samples.push(s.clone());
            }
        }
    }
}

fn report(ctx: &Ctx, profile: &str, why: String, case: Case) {
    let mut c = case;
    c.params.insert(format!("profile_{}", profile), 1);
    let mut f = ctx.failure.lock().unwrap();
    if f.is_none() {
        *f = Some(crate::engine::Failure {
            msg: format!("[{} profile] {}", profile, why),
            case: c,
        });
    }
    ctx.stop.store(true, std::sync::atomic::Ordering::SeqCst);
}

/// run explicit cases (witnesses, stress family), each in its own worker
fn run_explicit(ctx: &Ctx, phase: &str, profile: &str, cases: &[(String, Case)], dir: &str) {
    if ctx.failed() {
        return;
    }
    let t0 = Instant::now();
    let capped = std::sync::atomic::AtomicUsize::new(0);
    let idx = std::sync::atomic::AtomicUsize::new(0);
    std::thread::scope(|s| {
        for t in 0..ctx.threads.min(cases.len()).max(1) {
            let capped = &capped;
            let idx = &idx;
            s.spawn(move || loop {
                let i = idx.fetch_add(1, std::sync::atomic::Ordering::SeqCst);
                if i >= cases.len() || ctx.failed() {
                    break;
                }
                let (name, case) = &cases[i];
                match exec_in_worker(profile, case, dir, &format!("{}-{}-{}", phase, t, i)) {
                    ExecResult::Pass => {
                        let mut st = ctx.stats.lock().unwrap();
                        st.evaluations += 1;
                        st.nontrivial.insert(case.digest() ^ crate::wire::fnv(&[profile.as_bytes()]));
                        *st.labels.entry(format!("{}:{}", phase, profile)).or_insert(0) += 1;
                        if st.samples.len() < 2 {
                            let mut j = case.to_json(48);
                            j["name"] = json!(name);
                            st.samples.push(j);
                        }
                    }
                    ExecResult::Capped => {
                        capped.fetch_add(1, std::sync::atomic::Ordering::SeqCst);
                    }
                    ExecResult::Hang => {
                        ctx.harness_err.lock().unwrap().get_or_insert(format!(
                            "watchdog: case '{}' ran > 450 s in profile {} (inconclusive)",
                            name, profile
                        ));
                        ctx.stop.store(true, std::sync::atomic::Ordering::SeqCst);
                    }
                    ExecResult::Infra(m) => {
                        ctx.harness_err.lock().unwrap().get_or_insert(format!(
                            "case '{}' in profile {} could not be judged: {} (inconclusive)",
                            name, profile, m
                        ));
                        ctx.stop.store(true, std::sync::atomic::Ordering::SeqCst);
                    }
                    ExecResult::Panic(m) | ExecResult::Crash(m) => {
                        let small = minimise(profile, case, dir);
                        report(ctx, profile, format!("{}: {}", name, m), small);
                    }
                }
            });
        }
    });
    ctx.stats.lock().unwrap().phases.push(json!({
        "phase": format!("{}:{}", phase, profile), "kind": "explicit cases, one worker process each",
        "cases": cases.len(), "resource_capped": capped.load(std::sync::atomic::Ordering::SeqCst),
        "wall_s": t0.elapsed().as_secs_f64()
    }));
}

/// random search in worker processes (one per shard), restart after resource caps
fn run_search(ctx: &Ctx, phase: &str, profile: &str, total: u32, dir: &str) {
    if ctx.failed() {
        return;
    }
    let t0 = Instant::now();
    let shards = ctx.threads.min(total as usize).max(1);
    let per = (total as usize + shards - 1) / shards;
    let capped = std::sync::atomic::AtomicUsize::new(0);
    std::thread::scope(|s| {
        for sh in 0..shards {
            let capped = &capped;
            s.spawn(move || {
                let cur = format!("{}/cur-{}-{}-{}.json", dir, phase, profile, sh);
                let outp = format!("{}/out-{}-{}-{}.json", dir, phase, profile, sh);
                let mut start = 0usize;
                loop {
                    if ctx.failed() || start >= per {
                        break;
                    }
                    let _ = std::fs::remove_file(&outp);
                    let mut child = match Command::new(worker_path(profile))
                        .args([
                            "run",
                            phase,
                            &ctx.seed.to_string(),
                            &sh.to_string(),
                            &per.to_string(),
                            &start.to_string(),
                            &cur,
                            &outp,
                        ])
                        .stdout(Stdio::null())
                        .stderr(Stdio::piped())
                        .spawn()
                    {
                        Ok(c) => c,
                        Err(e) => {
                            ctx.harness_err
                                .lock()
                                .unwrap()
                                .get_or_insert(format!("cannot start {}: {}", worker_path(profile), e));
                            ctx.stop.store(true, std::sync::atomic::Ordering::SeqCst);
                            return;
                        }
                    };
                    // no-progress watchdog on the current-case file
                    let mut last = String::new();
                    let mut last_change = Instant::now();
                    let status = loop {
                        match child.try_wait() {
                            Ok(Some(st)) => break Some(st),
                            Ok(None) => {}
                            Err(_) => break None,
                        }
                        std::thread::sleep(Duration::from_millis(50));
                        if last_change.elapsed() > Duration::from_secs(5) {
                            let now = std::fs::read_to_string(&cur).unwrap_or_default();
                            if now != last {
                                last = now;
                                last_change = Instant::now();
                            } else if last_change.elapsed() > Duration::from_secs(300) {
                                let _ = child.kill();
                                let _ = child.wait();
                                let keep = format!("{}/C01-hang.json", crate::engine::out_dir("replays"));
                                let _ = std::fs::create_dir_all(crate::engine::out_dir("replays"));
                                let _ = std::fs::copy(&cur, &keep);
                                ctx.harness_err.lock().unwrap().get_or_insert(format!(
                                    "watchdog: no progress for 300 s in {} worker (case saved to {}) - inconclusive",
                                    profile, keep
                                ));
                                ctx.stop.store(true, std::sync::atomic::Ordering::SeqCst);
                                return;
                            }
                        }
                        if ctx.failed() {
                            let _ = child.kill();
                        }
                    };
                    let out = child.wait_with_output().ok();
                    let stderr = out
                        .as_ref()
                        .map(|o| String::from_utf8_lossy(&o.stderr).to_string())
                        .unwrap_or_default();
                    let Some(status) = status else { return };
                    if ctx.failed() {
                        return;
                    }
                    let read_cur = || -> Option<(usize, Case)> {
                        let t = std::fs::read_to_string(&cur).ok()?;
                        let v: Value = serde_json::from_str(&t).ok()?;
                        let idx = v["index"].as_u64()? as usize;
                        Some((idx, Case::from_json(&v["case"])?))
                    };
                    match status.code() {
                        Some(0) => {
                            if let Ok(t) = std::fs::read_to_string(&outp) {
                                if let Ok(v) = serde_json::from_str::<Value>(&t) {
                                    merge_worker_output(ctx, &v);
                                    if !v["failure"].is_null() {
                                        let case = Case::from_json(&v["failure"]["case"]).unwrap_or_default();
                                        let msg = v["failure"]["msg"].as_str().unwrap_or("").to_string();
                                        report(ctx, profile, msg, case);
                                    }
                                }
                            }
                            break;
                        }
                        Some(77) => {
                            capped.fetch_add(1, std::sync::atomic::Ordering::SeqCst);
                            match read_cur() {
                                Some((idx, _)) => start = idx + 1,
                                None => break,
                            }
                        }
                        _ => {
                            use std::os::unix::process::ExitStatusExt;
                            let why = stderr
                                .lines()
                                .find(|l| l.contains("overflowed its stack"))
                                .map(|s| s.trim().to_string())
                                .unwrap_or_else(|| stderr.lines().last().unwrap_or("").to_string());
                            let desc = format!(
                                "worker died: code {:?} signal {:?} ({})",
                                status.code(),
                                status.signal(),
                                why
                            );
                            match read_cur() {
                                Some((_, case)) => {
                                    // confirm in a fresh worker, then minimise
                                    if let Some(m) = fails(profile, &case, dir) {
                                        let small = minimise(profile, &case, dir);
                                        report(ctx, profile, format!("{} / {}", desc, m), small);
                                    } else {
                                        ctx.harness_err.lock().unwrap().get_or_insert(format!(
                                            "{} but the saved case does not reproduce in a fresh worker",
                                            desc
                                        ));
                                        ctx.stop.store(true, std::sync::atomic::Ordering::SeqCst);
                                    }
                                }
                                None => {
                                    ctx.harness_err
                                        .lock()
                                        .unwrap()
                                        .get_or_insert(format!("{} and no current-case file", desc));
                                    ctx.stop.store(true, std::sync::atomic::Ordering::SeqCst);
                                }
                            }
                            return;
                        }
                    }
                }
            });
        }
    });
    ctx.stats.lock().unwrap().phases.push(json!({
        "phase": format!("{}:{}", phase, profile), "kind": "random search (proptest) in worker processes, 2 MiB thread per case",
        "cases": per * shards, "shards": shards,
        "resource_capped": capped.load(std::sync::atomic::Ordering::SeqCst),
        "wall_s": t0.elapsed().as_secs_f64()
    }));
}

pub fn run(ctx: &Ctx) {
    let dir = scratch_dir();
    for p in ["release", "o0"] {
        if !std::path::Path::new(&worker_path(p)).exists() {
            *ctx.harness_err.lock().unwrap() =
                Some(format!("worker binary {} missing (run verif.sh build)", worker_path(p)));
            let _ = std::fs::remove_dir_all(&dir);
            return;
        }
    }
    // witnesses of listed findings (fixed ones are plain regression cases)
    let mut wit = vec![];
    for f in ctx.findings.iter().filter(|f| f.property == "C01") {
        if let Some(w) = &f.witness {
            let path = format!("{}/{}", VERIF_DIR, w);
            match std::fs::read_to_string(&path)
                .ok()
                .and_then(|t| serde_json::from_str::<Value>(&t).ok())
                .and_then(|v| Case::from_json(&v))
            {
                Some(c) => wit.push((format!("witness {}", w), c)),
                None => {
                    *ctx.harness_err.lock().unwrap() = Some(format!("witness {} unreadable", path));
                    let _ = std::fs::remove_dir_all(&dir);
                    return;
                }
            }
        }
    }
    let fam = stress_family();
    for p in ["release", "o0"] {
        run_explicit(ctx, "witness", p, &wit, &dir);
        run_explicit(ctx, "stress", p, &fam, &dir);
    }
    run_search(ctx, "stressmut", "release", ctx.n(480, 20_000), &dir);
    run_search(ctx, "stressmut", "o0", ctx.n(160, 6_000), &dir);
    run_search(ctx, "hostile", "release", ctx.n(400_000, 40_000_000), &dir);
    run_search(ctx, "conformant", "release", ctx.n(80_000, 8_000_000), &dir);
    run_search(ctx, "hostile", "o0", ctx.n(50_000, 8_000_000), &dir);
    run_search(ctx, "conformant", "o0", ctx.n(12_000, 2_000_000), &dir);
    let _ = std::fs::remove_dir_all(&dir);
}

/// verdict helper used by the worker
pub fn is_violation(o: &Outcome) -> Option<String> {
    match &o.verdict {
        Verdict::Violation(m) => Some(m.clone()),
        _ => None,
    }
}
