//! C12 - allowed_versions filters by version and nothing else.

use super::PropDef;
use crate::engine::{Call, Case, Ctx, Outcome};
use crate::gen::{self, BuildOpts, Mix};
use crate::obs::{self, decompose};
use crate::wire::*;
use netflow_parser::{NetflowPacket, NetflowParseError};
use proptest::prelude::*;
use std::collections::HashSet;

pub const DEF: PropDef = PropDef {
    id: "C12",
    run,
    oracle,
    rule: "cases = histories of 1..3 calls, each a buffer of 1..6 chained packets of versions {5,7,9,10} (conformant plans; V9 count = flowsets) with, optionally, an atom of an unknown version number (0, 1, 6, 8, 11, 255, 256, 0x0900, random) + junk, a truncated packet or a hostile mutation; a list of extra allowed numbers that sometimes contains the unknown version used. For every case the oracle enumerates all 16 subsets S of {5,7,9,10}, each with and without the extras (32 configurations, the same S for every call), plus - for histories of >= 2 calls - 8 schedules that reassign the public allowed_versions field between calls (shrinking and growing it): the S-parser's result of every call must equal the leading elements of a twin parser that allows all 65,536 versions and is in the same state (built by replaying the part of every earlier buffer the S-parser consumed), up to but excluding the first element whose start offset holds a version not in S (Debug equality); the S-parser's caches after the call must equal those of a third all-allowing parser fed only the bytes before that offset; an allowed version outside {5,7,9,10} must yield a final UnknownVersion error whose remaining bytes are the unparsed bytes (the junk behind the unknown version is up to 66,000 bytes long); bytes carried inside the error kind must be those same bytes, not a part of them. non-trivial = some call has >= 2 packets of >= 2 distinct versions, or a V9/IPFIX template packet is filtered; distinct by digest.",
    assumptions: &["element start offsets come from the C02 decomposition of the all-allowing twin's result"],
};

const CORE: [u16; 4] = [5, 7, 9, 10];

fn subsets(extras: &[u16]) -> Vec<Vec<u16>> {
    let mut out = vec![];
    for mask in 0..16u8 {
        let base: Vec<u16> = CORE.iter().enumerate().filter(|(i, _)| mask >> i & 1 == 1).map(|(_, v)| *v).collect();
        out.push(base.clone());
        if !extras.is_empty() {
            let mut b = base;
            b.extend_from_slice(extras);
            out.push(b);
        }
    }
    out
}

pub fn oracle(case: &Case) -> Outcome {
    let mut o = Outcome::pass();
    let extras: Vec<u16> = case.allowed.first().cloned().unwrap_or_default().into_iter().filter(|v| !CORE.contains(v)).collect();
    let all = obs::all_versions();
    // one schedule per allowed set (the same set for every call), plus - for histories of
    // several calls - schedules that reassign the public field between calls (shrinking and
    // growing it): the documented way of changing the filter on a live parser
    let subs = subsets(&extras);
    let ncalls = case.calls.len();
    let mut schedules: Vec<Vec<Vec<u16>>> = subs.iter().map(|s| vec![s.clone(); ncalls]).collect();
    if ncalls >= 2 {
        for j in (1..subs.len()).step_by(4) {
            schedules.push((0..ncalls).map(|i| subs[(j + i * (1 + j / 4)) % subs.len()].clone()).collect());
            o.label("allowed-set-reassigned-between-calls");
        }
    }
    for sched in schedules {
        let mut ps = obs::new_parser(&sched[0]);
        let mut consumed: Vec<Vec<u8>> = vec![];
        for (ci, c) in case.calls.iter().enumerate() {
            let s = sched[ci].clone();
            let sset: HashSet<u16> = s.iter().cloned().collect();
            ps.allowed_versions = sset.clone();
            let buf = c.buf();
            // all-allowing parsers in the state `ps` is in: built by replaying what `ps` has
            // consumed so far (the part of every earlier buffer in front of its first
            // filtered packet; that this leaves the same caches was checked call by call)
            let replayed = || {
                let mut t = obs::new_parser(&[]);
                t.allowed_versions = all.clone();
                for b in &consumed {
                    t.parse_bytes(b);
                }
                t
            };
            let mut twin = replayed();
            let mut third = replayed();

            let rs = ps.parse_bytes(&buf);
            let rt = twin.parse_bytes(&buf);
            let (spans, end) = match decompose(&buf, &all, &rt) {
                Ok(x) => x,
                Err(m) => return Outcome::violation(format!("S={:?} call {}: all-allowing twin violates C02: {}", s, ci, m)),
            };
            // start offsets of all twin elements (an Error element starts where decoding stopped)
            let mut starts: Vec<usize> = spans.iter().map(|sp| sp.start).collect();
            if rt.len() > spans.len() {
                starts.push(end);
            }
            let mut k = rt.len();
            for (i, st) in starts.iter().enumerate() {
                if *st + 2 <= buf.len() && !sset.contains(&be16(&buf, *st)) {
                    k = i;
                    break;
                }
            }
            let cut_off = if k < starts.len() { starts[k] } else { buf.len() };
            let want: Vec<String> = rt[..k].iter().map(obs::render).collect();
            let got: Vec<String> = rs.iter().map(obs::render).collect();
            if want != got {
                return Outcome::violation(format!(
                    "allowed={:?} call {}: {} elements returned, the all-allowing parser returns {} of which the first {} precede the first filtered version (offset {}); first difference at {:?}",
                    s,
                    ci,
                    got.len(),
                    rt.len(),
                    k,
                    cut_off,
                    want.iter().zip(got.iter()).position(|(a, b)| a != b).unwrap_or(want.len().min(got.len()))
                ));
            }
            let _ = third.parse_bytes(&buf[..cut_off]);
            consumed.push(buf[..cut_off].to_vec());
            if obs::cache_fingerprint(&ps) != obs::cache_fingerprint(&third) {
                return Outcome::violation(format!(
                    "allowed={:?} call {}: caches differ from a parser fed only the {} bytes before the first filtered packet",
                    s, ci, cut_off
                ));
            }
            // allowed but unsupported version -> UnknownVersion error carrying the rest
            if let Ok((_, off)) = decompose(&buf, &sset, &rs) {
                if off + 2 <= buf.len() {
                    let v = be16(&buf, off);
                    if sset.contains(&v) && !CORE.contains(&v) {
                        match rs.last() {
                            Some(NetflowPacket::Error(e)) if matches!(e.error, NetflowParseError::UnknownVersion(_)) && e.remaining == buf[off..] => {
                                o.label("allowed-unknown-version-error");
                                // the bytes inside the error kind, if it carries any, are the
                                // unparsed bytes too (with or without the version word) - not a
                                // part of them
                                if let NetflowParseError::UnknownVersion(p) = &e.error {
                                    if !(p.is_empty() || p[..] == buf[off..] || p[..] == buf[off + 2..]) {
                                        return Outcome::violation(format!(
                                            "allowed={:?} call {}: the UnknownVersion error for version {} at offset {} carries {} bytes that are neither the {} unparsed bytes nor those after the version word",
                                            s, ci, v, off, p.len(), buf.len() - off
                                        ));
                                    }
                                }
                            }
                            _ => {
                                return Outcome::violation(format!(
                                    "allowed={:?} call {}: version {} at offset {} is allowed but unsupported and is not reported as an UnknownVersion error with the unparsed bytes",
                                    s, ci, v, off
                                ))
                            }
                        }
                    }
                }
            } else {
                return Outcome::violation(format!("allowed={:?} call {}: result violates C02", s, ci));
            }
            if k < rt.len() {
                o.label("filtered");
                if k > 0 {
                    o.label("filtered-after-packets");
                }
                if cut_off + 2 <= buf.len() && matches!(be16(&buf, cut_off), 9 | 10) {
                    o.label("filtered-v9-or-ipfix");
                }
            }
        }
    }
    for c in &case.calls {
        let vs: std::collections::BTreeSet<u16> = c.packets.iter().filter(|p| p.len() >= 2).map(|p| be16(p, 0)).collect();
        if c.packets.len() >= 2 && vs.len() >= 2 {
            o.nontrivial = true;
        }
        if vs.contains(&9) || vs.contains(&10) {
            o.nontrivial = true;
        }
    }
    o
}

fn odd_version() -> BoxedStrategy<u16> {
    prop_oneof![
        Just(0u16), Just(1), Just(6), Just(8), Just(11), Just(255), Just(256), Just(0x0900), Just(0x0a00),
        // numbers that collide with a supported version in one byte
        Just(0x0105), Just(0x0207), Just(0x0309), Just(0x010a), Just(0x0505), Just(0x0a0a), Just(0x8005), Just(0xff09),
        any::<u16>()
    ]
    .boxed()
}

pub fn c12_case() -> BoxedStrategy<Case> {
    let mix = Mix { fixed: 3, v9: 3, ipfix: 3 };
    let call = proptest::collection::vec(gen::pkt_plan(mix, 3, 3), 1..=5);
    (
        gen::pool(2..=3, 5, false),
        proptest::collection::vec(call, 1..=3),
        proptest::option::weighted(0.4, (any::<u8>(), any::<u8>(), odd_version(), prop_oneof![40 => proptest::collection::vec(any::<u8>(), 0..40), 1 => proptest::collection::vec(any::<u8>(), 66_000..66_100)])),
        proptest::collection::vec(odd_version(), 0..3),
        proptest::option::weighted(0.2, (any::<u8>(), gen::mutation())),
        any::<bool>(),
    )
        .prop_map(|(pool, calls, odd, mut extras, mutn, use_odd)| {
            let plan = gen::StreamPlan { pool, calls };
            let b = gen::build(&plan, &BuildOpts { count_by_flowsets: true, ..BuildOpts::WIDE });
            let mut calls: Vec<Call> = b.calls;
            if let Some((ci, pi, v, junk)) = odd {
                let c = (ci as usize * calls.len()) >> 8;
                let pos = (pi as usize * (calls[c].packets.len() + 1)) >> 8;
                let mut atom = v.to_be_bytes().to_vec();
                atom.extend(junk);
                calls[c].packets.insert(pos, atom);
                if use_odd {
                    extras.push(v);
                }
            }
            if let Some((ci, m)) = mutn {
                let c = (ci as usize * calls.len()) >> 8;
                if let Some(last) = calls[c].packets.last_mut() {
                    gen::apply_mut(last, &m);
                }
            }
            extras.retain(|v| !CORE.contains(v));
            extras.sort();
            extras.dedup();
            Case { allowed: vec![extras], calls, params: Default::default() }
        })
        .boxed()
}

pub fn run(ctx: &Ctx) {
    ctx.replay_findings(&oracle);
    ctx.search("chained-mixed-versions-x-32-allowed-sets", ctx.n(40_000, 3_000_000), &c12_case, &oracle);
    // hostile histories under all configurations as well
    ctx.search(
        "hostile-x-32-allowed-sets",
        ctx.n(20_000, 1_500_000),
        &|| {
            gen::hostile_case()
                .prop_map(|mut c| {
                    let ex: Vec<u16> = c.allowed_of(0).into_iter().filter(|v| !CORE.contains(v)).collect();
                    c.allowed = vec![ex];
                    c
                })
                .boxed()
        },
        &oracle,
    );
}
