//! Comparison of library output with the reference decode of the same bytes, shared by
//! C04, C05, C06, C07, C13 and C17.

use crate::engine::{Case, Outcome};
use crate::obs::{self, val_eq};
use crate::refdec::{dec_fixed, dec_ipfix, dec_v9, dtype, expect, Exp, RefBody, RefPkt};
use crate::wire::*;
use netflow_parser::variable_versions::data_number::{DataNumber, FieldValue};
use netflow_parser::variable_versions::ipfix_lookup::IPFixField;
use netflow_parser::variable_versions::v9_lookup::{ScopeFieldType, V9Field};
use netflow_parser::variable_versions::{ipfix, v9};
use netflow_parser::{NetflowPacket, NetflowParser};

/// what the comparison of one element concluded
pub enum Flow {
    Continue,
    /// a listed finding was observed whose effect persists (cache differs from the model):
    /// the rest of the case is not compared
    Tainted,
}

pub const SIG_V9_OPTDATA: &str = "v9:optdata:records-after-first-as-padding";
pub const SIG_IPFIX_MULTI_TPL: &str = "ipfix:tplset:multi-record-merged";
pub const SIG_IPFIX_MULTI_OPTTPL: &str = "ipfix:opttplset:later-records-as-padding";
pub const SIG_IPFIX_DROPPED: &str = "ipfix:msg:sets-after-undecodable-dropped";

fn short(b: &[u8]) -> String {
    if b.len() > 24 {
        format!("{}..({} bytes)", hex(&b[..24]), b.len())
    } else {
        hex(b)
    }
}

// ---------------------------------------------------------------------------------------
// V9
// ---------------------------------------------------------------------------------------

fn cmp_v9_fields(what: &str, exp: &[FieldSpec], got: &[v9::TemplateField]) -> Result<(), String> {
    if exp.len() != got.len() {
        return Err(format!("{}: {} fields sent, {} reported", what, exp.len(), got.len()));
    }
    for (i, (e, g)) in exp.iter().zip(got.iter()).enumerate() {
        if g.field_type_number != e.ie || g.field_length != e.len || g.field_type != V9Field::from(e.ie) {
            return Err(format!(
                "{} field {}: sent (type {}, length {}), reported (type {} {:?}, length {})",
                what, i, e.ie, e.len, g.field_type_number, g.field_type, g.field_length
            ));
        }
    }
    Ok(())
}

pub fn cmp_v9(o: &mut Outcome, lib: &v9::V9, r: &RefPkt) -> Result<Flow, String> {
    let h = &lib.header;
    let got = [h.count as u32, h.sys_up_time, h.unix_secs, h.sequence_number, h.source_id];
    if h.version != 9 || got[..] != r.header[..] {
        return Err(format!("V9 header reported {:?}, sent {:?}", got, r.header));
    }
    if lib.flowsets.len() != r.sets.len() {
        return Err(format!("{} flowsets sent, {} reported", r.sets.len(), lib.flowsets.len()));
    }
    for (si, (ls, rs)) in lib.flowsets.iter().zip(r.sets.iter()).enumerate() {
        if ls.header.flowset_id != rs.id || ls.header.length != rs.length {
            return Err(format!(
                "flowset {}: header (id {}, length {}) sent, ({}, {}) reported",
                si, rs.id, rs.length, ls.header.flowset_id, ls.header.length
            ));
        }
        match (&rs.body, &ls.body) {
            (RefBody::Templates { tpls, padding }, v9::FlowSetBody::Template(t)) if tpls[0].1.kind == Kind::Plain => {
                if t.templates.len() != tpls.len() {
                    return Err(format!(
                        "flowset {}: {} template records sent, {} reported",
                        si,
                        tpls.len(),
                        t.templates.len()
                    ));
                }
                for (k, ((id, d), g)) in tpls.iter().zip(t.templates.iter()).enumerate() {
                    if g.template_id != *id || g.field_count as usize != d.fields.len() {
                        return Err(format!(
                            "flowset {} template {}: (id {}, {} fields) sent, (id {}, field_count {}) reported",
                            si,
                            k,
                            id,
                            d.fields.len(),
                            g.template_id,
                            g.field_count
                        ));
                    }
                    cmp_v9_fields(&format!("flowset {} template {}", si, k), &d.fields, &g.fields)?;
                }
                if &t.padding != padding {
                    return Err(format!("flowset {}: template padding {} reported, {} sent", si, short(&t.padding), short(padding)));
                }
                if tpls.len() > 1 {
                    o.label("v9:multi-template-flowset");
                }
            }
            (RefBody::Templates { tpls, padding }, v9::FlowSetBody::OptionsTemplate(t)) if tpls[0].1.kind == Kind::Options => {
                if t.templates.len() != tpls.len() {
                    return Err(format!(
                        "flowset {}: {} options template records sent, {} reported",
                        si,
                        tpls.len(),
                        t.templates.len()
                    ));
                }
                for (k, ((id, d), g)) in tpls.iter().zip(t.templates.iter()).enumerate() {
                    let sn = d.scope_n as usize;
                    if g.template_id != *id
                        || g.options_scope_length as usize != sn * 4
                        || g.options_length as usize != (d.fields.len() - sn) * 4
                    {
                        return Err(format!("flowset {} options template {}: header differs from what was sent", si, k));
                    }
                    if g.scope_fields.len() != sn {
                        return Err(format!("flowset {} options template {}: {} scope fields sent, {} reported", si, k, sn, g.scope_fields.len()));
                    }
                    for (e, s) in d.fields[..sn].iter().zip(g.scope_fields.iter()) {
                        if s.field_type_number != e.ie || s.field_length != e.len || s.field_type != ScopeFieldType::from(e.ie) {
                            return Err(format!("flowset {} options template {}: scope field differs", si, k));
                        }
                    }
                    cmp_v9_fields(&format!("flowset {} options template {}", si, k), &d.fields[sn..], &g.option_fields)?;
                }
                if &t.padding != padding {
                    return Err(format!("flowset {}: options template padding differs", si));
                }
                o.label("v9:options-template");
            }
            (RefBody::Data { def, records, padding }, v9::FlowSetBody::Data(d)) if def.kind == Kind::Plain => {
                let flat = obs::flat_v9(d);
                if flat.len() != records.len() {
                    return Err(format!(
                        "flowset {} (template {}): {} records sent, {} reported",
                        si,
                        rs.id,
                        records.len(),
                        flat.len()
                    ));
                }
                for (ri, (er, gr)) in records.iter().zip(flat.iter()).enumerate() {
                    if gr.len() != def.fields.len() {
                        return Err(format!("flowset {} record {}: {} fields expected, {} reported", si, ri, def.fields.len(), gr.len()));
                    }
                    for (fi, ((f, bytes), (gi, gf, gv))) in def.fields.iter().zip(er.iter()).zip(gr.iter()).enumerate() {
                        let exp = expect(&dtype(Proto::V9, f), bytes).map_err(|e| format!("HARNESS: non-conformant width in conformant stream: {}", e.0))?;
                        if *gi != fi || *gf != V9Field::from(f.ie) || !val_eq(&exp, gv) {
                            return Err(format!(
                                "flowset {} record {} field {} (type {}, length {}): bytes {} should decode to {:?}, reported ({}, {:?}, {:?})",
                                si, ri, fi, f.ie, f.len, short(bytes), exp, gi, gf, gv
                            ));
                        }
                    }
                }
                if &d.padding != padding {
                    return Err(format!("flowset {}: padding {} reported, {} sent", si, short(&d.padding), short(padding)));
                }
                if records.len() >= 2 && def.fields.len() >= 2 {
                    o.nontrivial = true;
                }
                if !padding.is_empty() {
                    o.label("v9:data-padding");
                }
                for f in &def.fields {
                    if matches!(f.len, 3 | 8 | 16) {
                        o.label(format!("v9:width-{}", f.len));
                    }
                }
            }
            (RefBody::Data { def, records, padding }, v9::FlowSetBody::OptionsData(od)) if def.kind == Kind::Options => {
                let sn = def.scope_n as usize;
                o.label("v9:options-data");
                let (first, rest_records) = match records.split_first() {
                    Some((f, r)) => (Some(f), r),
                    None => (None, &records[..0]),
                };
                match first {
                    None => {
                        if !od.scope_fields.is_empty() || !od.options_fields.is_empty() || &od.padding != padding {
                            return Err(format!("flowset {}: options data without records reported with fields", si));
                        }
                    }
                    Some(rec) => {
                        if od.scope_fields.len() != sn || od.options_fields.len() != def.fields.len() - sn {
                            return Err(format!(
                                "flowset {}: options record has {}+{} fields, reported {}+{}",
                                si,
                                sn,
                                def.fields.len() - sn,
                                od.scope_fields.len(),
                                od.options_fields.len()
                            ));
                        }
                        for (k, s) in od.scope_fields.iter().enumerate() {
                            let (t, b) = match s {
                                v9::ScopeDataField::System(b) => (1, b),
                                v9::ScopeDataField::Interface(b) => (2, b),
                                v9::ScopeDataField::LineCard(b) => (3, b),
                                v9::ScopeDataField::NetFlowCache(b) => (4, b),
                                v9::ScopeDataField::Template(b) => (5, b),
                            };
                            if t != def.fields[k].ie || b != &rec[k] {
                                return Err(format!("flowset {}: scope field {} differs from the bytes sent", si, k));
                            }
                        }
                        for (k, f) in od.options_fields.iter().enumerate() {
                            if f.field_type != V9Field::from(def.fields[sn + k].ie) || f.field_value != rec[sn + k] {
                                return Err(format!("flowset {}: option field {} differs from the bytes sent", si, k));
                            }
                        }
                        if rest_records.is_empty() {
                            if &od.padding != padding {
                                return Err(format!("flowset {}: options data padding differs", si));
                            }
                        } else {
                            // finding D6: records after the first are reported as padding
                            let mut want: Vec<u8> = rest_records.iter().flatten().flatten().cloned().collect();
                            want.extend_from_slice(padding);
                            if od.padding == want {
                                o.hit(SIG_V9_OPTDATA);
                                o.label("v9:options-data-multi-record");
                            } else {
                                return Err(format!(
                                    "flowset {}: options data with {} records: neither decoded nor reported verbatim as padding",
                                    si,
                                    records.len()
                                ));
                            }
                        }
                    }
                }
            }
            (rb, lb) => {
                return Err(format!(
                    "flowset {} (id {}): sent {}, reported {}",
                    si,
                    rs.id,
                    match rb {
                        RefBody::Templates { tpls, .. } => format!("{:?} template records", tpls[0].1.kind),
                        RefBody::Data { def, .. } => format!("data for a {:?} template", def.kind),
                        RefBody::UnknownTemplate => "data for an unknown template".into(),
                    },
                    match lb {
                        v9::FlowSetBody::Template(_) => "Template",
                        v9::FlowSetBody::OptionsTemplate(_) => "OptionsTemplate",
                        v9::FlowSetBody::Data(_) => "Data",
                        v9::FlowSetBody::OptionsData(_) => "OptionsData",
                    }
                ));
            }
        }
    }
    Ok(Flow::Continue)
}

// ---------------------------------------------------------------------------------------
// IPFIX
// ---------------------------------------------------------------------------------------

fn cmp_ipfix_fields(what: &str, exp: &[FieldSpec], got: &[ipfix::TemplateField]) -> Result<(), String> {
    if exp.len() != got.len() {
        return Err(format!("{}: {} fields sent, {} reported", what, exp.len(), got.len()));
    }
    for (i, (e, g)) in exp.iter().zip(got.iter()).enumerate() {
        let ft = if e.ent.is_some() { IPFixField::Enterprise } else { IPFixField::from(e.ie) };
        if g.field_type_number != e.ie || g.field_length != e.len || g.enterprise_number != e.ent || g.field_type != ft {
            return Err(format!(
                "{} field {}: sent (element {}, length {}, enterprise {:?}), reported (element {} {:?}, length {}, enterprise {:?})",
                what, i, e.ie, e.len, e.ent, g.field_type_number, g.field_type, g.field_length, g.enterprise_number
            ));
        }
    }
    Ok(())
}

/// what the library's greedy template parser makes of a template set body (finding D7)
fn greedy_merged(body: &[u8]) -> (u16, u16, Vec<FieldSpec>, Vec<u8>) {
    let id = be16(body, 0);
    let fc = be16(body, 2);
    let mut p = 4;
    let mut fields = vec![];
    loop {
        if body.len() - p < 4 {
            break;
        }
        let t = be16(body, p);
        let l = be16(body, p + 2);
        if t > 32767 {
            if body.len() - p < 8 {
                break;
            }
            fields.push(FieldSpec { ie: t - 32768, len: l, ent: Some(be32(body, p + 4)) });
            p += 8;
        } else {
            fields.push(FieldSpec { ie: t, len: l, ent: None });
            p += 4;
        }
    }
    (id, fc, fields, body[p..].to_vec())
}

fn cmp_ipfix_data(
    o: &mut Outcome,
    si: usize,
    def: &Def,
    records: &[Vec<Vec<u8>>],
    padding: &[u8],
    fields: &[std::collections::BTreeMap<usize, (IPFixField, FieldValue)>],
    lib_padding: &[u8],
) -> Result<(), String> {
    let flat = obs::flat_ipfix(fields);
    let nf = def.fields.len();
    if flat.len() != records.len() * nf {
        return Err(format!(
            "set {}: {} records of {} fields sent ({} values), {} values reported",
            si,
            records.len(),
            nf,
            records.len() * nf,
            flat.len()
        ));
    }
    for (ri, rec) in records.iter().enumerate() {
        for (fi, (f, bytes)) in def.fields.iter().zip(rec.iter()).enumerate() {
            let (gi, gf, gv) = &flat[ri * nf + fi];
            let (exp, ft) = if f.ent.is_some() {
                (Exp::Bytes(bytes.clone()), IPFixField::Enterprise)
            } else {
                (
                    expect(&dtype(Proto::Ipfix, f), bytes)
                        .map_err(|e| format!("HARNESS: non-conformant width in conformant stream: {}", e.0))?,
                    IPFixField::from(f.ie),
                )
            };
            let mut ok = *gi == fi && *gf == ft && val_eq(&exp, gv);
            if !ok && *gi == fi && *gf == ft {
                if let Exp::IWide(v, w) = &exp {
                    // finding D24: the value enum has no 64/128-bit signed variant
                    if **gv == FieldValue::DataNumber(DataNumber::I32(*v as i32)) {
                        o.hit(format!("ipfix:value:signed-w{}-truncated", w));
                        ok = true;
                    }
                }
            }
            if !ok {
                return Err(format!(
                    "set {} record {} field {} (element {}, length {}, enterprise {:?}): bytes {} should decode to {:?}, reported ({}, {:?}, {:?})",
                    si, ri, fi, f.ie, f.len, f.ent, short(bytes), exp, gi, gf, gv
                ));
            }
        }
    }
    if lib_padding != padding {
        return Err(format!("set {}: padding {} reported, {} sent", si, short(lib_padding), short(padding)));
    }
    if records.len() >= 2 && nf >= 2 {
        o.nontrivial = true;
    }
    if def.has_varlen() {
        o.label("ipfix:varlen");
        if records.windows(2).any(|w| {
            w[1].iter().map(|v| v.len()).sum::<usize>() < w[0].iter().map(|v| v.len()).sum::<usize>()
        }) {
            o.label("ipfix:record-shorter-than-predecessor");
        }
    }
    if def.fields.iter().any(|f| f.ent.is_some()) {
        o.label("ipfix:enterprise");
    }
    if def.fields.iter().any(|f| f.len == 0) {
        o.label("ipfix:zero-length-field");
    }
    if !padding.is_empty() {
        o.label("ipfix:data-padding");
    }
    Ok(())
}

pub fn cmp_ipfix(o: &mut Outcome, lib: &ipfix::IPFix, r: &RefPkt, pkt: &[u8]) -> Result<Flow, String> {
    let h = &lib.header;
    let got = [h.length as u32, h.export_time, h.sequence_number, h.observation_domain_id];
    if h.version != 10 || got[..] != r.header[..] {
        return Err(format!("IPFIX header reported {:?}, sent {:?}", got, r.header));
    }
    for (si, rs) in r.sets.iter().enumerate() {
        if let RefBody::UnknownTemplate = rs.body {
            // C07: the set is omitted. Finding D9: so is everything after it.
            if lib.flowsets.len() != si {
                return Err(format!(
                    "set {} (id {}) has no template; {} sets reported although decoding stops there",
                    si,
                    rs.id,
                    lib.flowsets.len()
                ));
            }
            o.label("ipfix:unknown-template-set");
            if si + 1 < r.sets.len() {
                o.hit(SIG_IPFIX_DROPPED);
                return Ok(Flow::Tainted);
            }
            return Ok(Flow::Continue);
        }
        let Some(ls) = lib.flowsets.get(si) else {
            return Err(format!("{} sets sent, only {} reported", r.sets.len(), lib.flowsets.len()));
        };
        if ls.header.header_id != rs.id || ls.header.length != rs.length {
            return Err(format!(
                "set {}: header (id {}, length {}) sent, ({}, {}) reported",
                si, rs.id, rs.length, ls.header.header_id, ls.header.length
            ));
        }
        let body = &pkt[rs.off + 4..rs.off + rs.length as usize];
        match (&rs.body, &ls.body) {
            (RefBody::Templates { tpls, padding }, ipfix::FlowSetBody::Template(t)) if tpls[0].1.kind == Kind::Plain => {
                if tpls.len() == 1 {
                    let (id, d) = &tpls[0];
                    if t.template_id != *id || t.field_count as usize != d.fields.len() {
                        return Err(format!("set {}: template (id {}, {} fields) sent, (id {}, field_count {}) reported", si, id, d.fields.len(), t.template_id, t.field_count));
                    }
                    cmp_ipfix_fields(&format!("set {} template", si), &d.fields, &t.fields)?;
                    if &t.padding != padding {
                        return Err(format!("set {}: template padding differs", si));
                    }
                } else {
                    // finding D7: several template records are merged into one
                    let (id, fc, fields, pad) = greedy_merged(body);
                    let same = t.template_id == id
                        && t.field_count == fc
                        && t.padding == pad
                        && cmp_ipfix_fields("merged", &fields, &t.fields).is_ok();
                    if same {
                        o.hit(SIG_IPFIX_MULTI_TPL);
                        o.label("ipfix:multi-template-set");
                        return Ok(Flow::Tainted);
                    }
                    return Err(format!(
                        "set {}: {} template records sent; reported one template that is not even the greedy merge of the set body",
                        si,
                        tpls.len()
                    ));
                }
            }
            (RefBody::Templates { tpls, padding }, ipfix::FlowSetBody::OptionsTemplate(t)) if tpls[0].1.kind == Kind::Options => {
                let (id, d) = &tpls[0];
                if t.template_id != *id || t.field_count as usize != d.fields.len() || t.scope_field_count != d.scope_n {
                    return Err(format!("set {}: options template header differs from what was sent", si));
                }
                cmp_ipfix_fields(&format!("set {} options template", si), &d.fields, &t.fields)?;
                o.label("ipfix:options-template");
                if tpls.len() == 1 {
                    if &t.padding != padding {
                        return Err(format!("set {}: options template padding differs", si));
                    }
                } else {
                    // finding D7 (options flavour): later records become padding
                    let first_len = d.wire_size(Proto::Ipfix);
                    if t.padding == body[first_len..] {
                        o.hit(SIG_IPFIX_MULTI_OPTTPL);
                        return Ok(Flow::Tainted);
                    }
                    return Err(format!("set {}: {} options template records sent; later ones neither decoded nor kept as padding", si, tpls.len()));
                }
            }
            (RefBody::Data { def, records, padding }, ipfix::FlowSetBody::Data(d)) if def.kind == Kind::Plain => {
                cmp_ipfix_data(o, si, def, records, padding, &d.fields, &d.padding)?;
            }
            (RefBody::Data { def, records, padding }, ipfix::FlowSetBody::OptionsData(d)) if def.kind == Kind::Options => {
                o.label("ipfix:options-data");
                cmp_ipfix_data(o, si, def, records, padding, &d.fields, &d.padding)?;
            }
            (rb, lb) => {
                return Err(format!(
                    "set {} (id {}): sent {}, reported {}",
                    si,
                    rs.id,
                    match rb {
                        RefBody::Templates { tpls, .. } => format!("{:?} template records", tpls[0].1.kind),
                        RefBody::Data { def, .. } => format!("data for a {:?} template", def.kind),
                        RefBody::UnknownTemplate => "data for an unknown template".into(),
                    },
                    match lb {
                        ipfix::FlowSetBody::Template(_) => "Template",
                        ipfix::FlowSetBody::OptionsTemplate(_) => "OptionsTemplate",
                        ipfix::FlowSetBody::Data(_) => "Data",
                        ipfix::FlowSetBody::OptionsData(_) => "OptionsData",
                    }
                ));
            }
        }
    }
    if lib.flowsets.len() != r.sets.len() {
        return Err(format!("{} sets sent, {} reported", r.sets.len(), lib.flowsets.len()));
    }
    Ok(Flow::Continue)
}

// ---------------------------------------------------------------------------------------
// streams
// ---------------------------------------------------------------------------------------

#[derive(Clone, Copy)]
pub struct StreamOpts {
    /// compare the library caches with the model after every call
    pub check_cache: bool,
    /// which protocols' decode is compared (others are only stepped over)
    pub v9: bool,
    pub ipfix: bool,
    pub fixed: bool,
}

impl StreamOpts {
    pub const ALL: StreamOpts = StreamOpts { check_cache: true, v9: true, ipfix: true, fixed: true };
}

pub fn cache_diff(p: &NetflowParser, model: &Cache) -> Option<String> {
    let l = obs::lib_cache(p);
    let m = obs::model_cache_norm(model);
    if l == m {
        return None;
    }
    for (k, v) in &m {
        match l.get(k) {
            None => return Some(format!("template {:?} missing from the library cache", k)),
            Some(x) if x != v => return Some(format!("template {:?}: library holds {:?}, latest definition received is {:?}", k, x, v)),
            _ => {}
        }
    }
    for k in l.keys() {
        if !m.contains_key(k) {
            return Some(format!("library cache holds {:?} which the model does not (stale or foreign entry)", k));
        }
    }
    None
}

/// Run the history of `case` on one parser per index and compare every call with the
/// reference decode. The caller provides the outcome to accumulate labels into.
pub fn check_stream(case: &Case, so: StreamOpts, o: &mut Outcome) -> Result<(), String> {
    let n = case.n_parsers();
    let mut parsers: Vec<NetflowParser> = (0..n).map(|i| obs::new_parser(&case.allowed_of(i))).collect();
    let mut models: Vec<Cache> = vec![Cache::default(); n];
    let mut ref_records = 0usize;
    for (ci, c) in case.calls.iter().enumerate() {
        let buf = c.buf();
        let res = parsers[c.parser].parse_bytes(&buf);
        let cache = &mut models[c.parser];
        let allowed = case.allowed_of(c.parser);
        let mut off = 0usize;
        let mut i = 0usize;
        let mut stopped = false;
        while off < buf.len() {
            if buf.len() - off < 2 {
                return Err(format!("HARNESS: call {} has a {}-byte tail", ci, buf.len() - off));
            }
            let v = be16(&buf, off);
            if !allowed.contains(&v) {
                stopped = true;
                break;
            }
            let at = |m: String| format!("call {} element {} (offset {}): {}", ci, i, off, m);
            match v {
                5 | 7 => {
                    let Some(r) = dec_fixed(&buf[off..]) else {
                        return Err(format!("HARNESS: truncated V{} packet in a conformant stream", v));
                    };
                    let Some(el) = res.get(i) else {
                        return Err(at(format!("V{} packet not reported", v)));
                    };
                    if so.fixed {
                        super::c03::cmp_fixed(o, el, &r).map_err(at)?;
                    } else if obs::version_of(el) != Some(v) {
                        return Err(at(format!("V{} packet reported as {:?}", v, obs::version_of(el))));
                    }
                    off += r.len;
                }
                9 => {
                    let r = dec_v9(&buf[off..], cache).map_err(|e| format!("HARNESS: V9 packet outside the conformant envelope: {}", e.0))?;
                    ref_records += r.data_records();
                    if r.has_unknown() {
                        // C07: the packet is an error, which ends the buffer
                        match res.get(i) {
                            Some(NetflowPacket::Error(_)) if i + 1 == res.len() => {}
                            _ => return Err(at("V9 packet with data for an unknown template is not reported as the final error".into())),
                        }
                        o.label("v9:unknown-template-packet");
                        i += 1;
                        stopped = true;
                        break;
                    }
                    let Some(NetflowPacket::V9(lv)) = res.get(i) else {
                        return Err(at(format!(
                            "V9 packet ({} flowsets) reported as {}",
                            r.sets.len(),
                            match res.get(i) {
                                None => "nothing".to_string(),
                                Some(NetflowPacket::Error(e)) => format!("error {:?}", e.error).chars().take(160).collect(),
                                Some(x) => format!("{:?}", obs::version_of(x)),
                            }
                        )));
                    };
                    if so.v9 {
                        match cmp_v9(o, lv, &r).map_err(at)? {
                            Flow::Continue => {}
                            Flow::Tainted => return Ok(()),
                        }
                    }
                    o.label("v9");
                    size_labels(o, &r);
                    off += r.len;
                }
                10 => {
                    let r = dec_ipfix(&buf[off..], cache).map_err(|e| format!("HARNESS: IPFIX message outside the conformant envelope: {}", e.0))?;
                    ref_records += r.data_records();
                    let Some(NetflowPacket::IPFix(lm)) = res.get(i) else {
                        return Err(at(format!(
                            "IPFIX message ({} sets) reported as {}",
                            r.sets.len(),
                            match res.get(i) {
                                None => "nothing".to_string(),
                                Some(NetflowPacket::Error(e)) => format!("error {:?}", e.error).chars().take(160).collect(),
                                Some(x) => format!("{:?}", obs::version_of(x)),
                            }
                        )));
                    };
                    if so.ipfix {
                        match cmp_ipfix(o, lm, &r, &buf[off..off + r.len]).map_err(at)? {
                            Flow::Continue => {}
                            Flow::Tainted => return Ok(()),
                        }
                    }
                    o.label("ipfix");
                    size_labels(o, &r);
                    off += r.len;
                }
                _ => {
                    stopped = true;
                    break;
                }
            }
            i += 1;
        }
        if !stopped && res.len() != i {
            return Err(format!("call {}: {} packets sent, {} elements reported", ci, i, res.len()));
        }
        if so.check_cache {
            if let Some(d) = cache_diff(&parsers[c.parser], &models[c.parser]) {
                return Err(format!("after call {}: {}", ci, d));
            }
        }
        if ci > 0 {
            o.label("multi-call");
        }
        if ci == 0 && case.params.contains_key("retransmission") {
            o.label("retransmitted-packet");
        }
    }
    // generator self-check: the builder's own record count must agree with the reference decode
    if let Some(b) = case.params.get("built_data_records") {
        if *b as usize != ref_records {
            return Err(format!("HARNESS: builder wrote {} data records, reference decoder found {}", b, ref_records));
        }
    }
    Ok(())
}


/// size classes of a reference-decoded packet (evidence histogram)
fn size_labels(o: &mut Outcome, r: &crate::refdec::RefPkt) {
    if r.len >= 32 * 1024 {
        o.label("packet>=32KiB");
    }
    if r.sets.len() >= 200 {
        o.label("sets-per-packet>=200");
    }
    for s in &r.sets {
        match &s.body {
            RefBody::Data { def, records, .. } => {
                if records.len() >= 1000 {
                    o.label("records-per-set>=1000");
                }
                if def.fields.len() >= 1000 {
                    o.label("data-under-template-of>=1000-fields");
                }
            }
            _ => {}
        }
    }
}

/// wrap `check_stream` into an Outcome; "HARNESS:" messages become harness errors (exit 2)
pub fn stream_outcome(case: &Case, so: StreamOpts) -> Outcome {
    let mut o = Outcome::pass();
    match check_stream(case, so, &mut o) {
        Ok(()) => o,
        Err(m) if m.contains("HARNESS:") => Outcome::harness(m),
        Err(m) => {
            let mut v = Outcome::violation(m);
            v.labels = o.labels;
            v
        }
    }
}
