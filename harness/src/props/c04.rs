//! C04 - V9 flowsets decode record by record exactly as the governing template says.

use super::conf::{stream_outcome, StreamOpts};
use super::PropDef;
use crate::engine::{Case, Ctx, Outcome};
use crate::gen::{self, BuildOpts, Mix, StreamCfg};

pub const DEF: PropDef = PropDef {
    id: "C04",
    run,
    oracle,
    rule: "cases = RFC 3954-conformant V9 streams built from a generated plan: template pool (2..5 ids, 1..3 alternative definitions each, plain and options templates, 1..12 fields drawn from fields the library types (counters, addresses, MACs, strings, durations, protocol) and fields it does not know, all supported widths 1/2/3/4/8/16), histories of 1..5 calls, 1..3 packets per call (count by records for single-packet calls, by flowsets when chained), 1..6 flowsets per packet in any order, 1..4 template records per template flowset, 0..40 records per data flowset, padding 0..3, redefinitions between calls, V5/V7 packets interleaved. Oracle = independent RFC 3954 reference decoder + template-cache model over the same bytes: header, every template record, every record's every field value in the library-assigned type, padding; both directions (nothing missing, nothing extra); cache = model after every call. kind-changes phase: the same generator with ids that change between template and options template (also inside one packet). boundary-counts phase: deterministic packets with 254..257, 1023..1025, 4095..4097, 16383..16385, 32767..32769 and 65,500 records per set / fields per template / sets per packet / template definitions per packet. redefinition-chain phase: 100-900 calls over one or two ids whose definition keeps changing. datagram-sized phases: packets up to 64 KB with up to 18,000 records per set, 4,000 fields per template, 1,500 sets per packet. strict phase cannot produce any open finding's trigger; wide phase adds options data with several records (D6) and must match its signature exactly. non-trivial = >= 1 data flowset with >= 2 records under a template with >= 2 fields; distinct by digest.",
    assumptions: &["which data type a field number has is taken from the library's public lookup (pinned by the suite's lookup snapshots); slicing and interpretation are the harness' own"],
};

pub fn oracle(case: &Case) -> Outcome {
    stream_outcome(case, StreamOpts { fixed: false, ..StreamOpts::ALL })
}

pub const MIX: Mix = Mix { fixed: 1, v9: 8, ipfix: 0 };

pub fn cfg(thorough: bool) -> StreamCfg {
    StreamCfg {
        mix: MIX,
        ids: (2, 5),
        max_fields: 12,
        calls: (1, 5),
        pkts_per_call: (2, 3),
        max_sets: 6,
        max_recs: if thorough { 12 } else { 7 },
        mixed_kinds: false,
    }
}

pub fn run(ctx: &Ctx) {
    ctx.replay_findings(&oracle);
    let c = cfg(ctx.thorough());
    ctx.search("strict", ctx.n(250_000, 30_000_000), &move || gen::conformant_case(c, BuildOpts::STRICT), &oracle);
    ctx.search("wide", ctx.n(80_000, 8_000_000), &move || gen::conformant_case(c, BuildOpts::WIDE), &oracle);
    let big = StreamCfg { max_recs: 170, calls: (1, 2), max_sets: 3, ..c };
    ctx.search("many-records", ctx.n(4_000, 400_000), &move || gen::conformant_case(big, BuildOpts::STRICT), &oracle);
    let wide = StreamCfg { max_fields: 90, ids: (1, 2), calls: (1, 2), max_sets: 3, max_recs: 3, ..c };
    ctx.search("wide-templates", ctx.n(10_000, 1_000_000), &move || gen::conformant_case(wide, BuildOpts::STRICT), &oracle);
    // an id may be a template and, later (also later in the same packet), an options template, and back
    let mixed = StreamCfg { mixed_kinds: true, ..c };
    ctx.search("kind-changes", ctx.n(40_000, 4_000_000), &move || gen::conformant_case(mixed, BuildOpts::STRICT), &oracle);
    // counts on and around 2^8, 2^10, 2^12, 2^14 (records, fields, sets, template definitions)
    ctx.enumerate("boundary-counts", gen::boundary_count_cases(crate::wire::Proto::V9), false, &oracle);
    // one or two ids redefined over and over (100-900 calls, data after every redefinition; several hundred redefinitions of one id)
    let chain = StreamCfg { ids: (1, 2), max_fields: 4, calls: (100, 900), pkts_per_call: (1, 1), max_sets: 2, max_recs: 2, ..c };
    ctx.search("redefinition-chain", ctx.n(300, 30_000), &move || gen::conformant_case(chain, BuildOpts::STRICT), &oracle);
    // datagram-sized packets under the full decode oracle: thousands of records per set,
    // thousands of fields per template, hundreds of sets per packet
    for (k, name) in ["datagram-sized-many-records", "datagram-sized-many-fields", "datagram-sized-many-sets"].iter().enumerate() {
        let big = StreamCfg::datagram_sized(c.mix, k);
        ctx.search(name, ctx.n(120, 6_000), &move || gen::conformant_case(big, BuildOpts::STRICT.big()), &oracle);
    }
}
