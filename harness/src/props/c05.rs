//! C05 - IPFIX sets decode exactly as RFC 7011 and the governing template say.

use super::conf::{stream_outcome, StreamOpts};
use super::PropDef;
use crate::engine::{Case, Ctx, Outcome};
use crate::gen::{self, BuildOpts, Mix, StreamCfg};

pub const DEF: PropDef = PropDef {
    id: "C05",
    run,
    oracle,
    rule: "cases = RFC 7011-conformant IPFIX streams built from a generated plan: template pool (2..5 ids, plain and options templates with scope counts, 1..12 fields: typed, unknown, enterprise-specific (E bit + enterprise number), fixed widths 1/2/3/4/8/16, zero-length octet/string elements (<= 2 per template), variable-length elements in 1-byte and 3-byte length form incl. lengths 0, 254, 255, 256), histories of 1..5 calls, 1..3 messages per call, 1..6 sets per message in any order, 0..40 records per data set with differing record sizes, padding 0..7 shorter than the shortest record, V5/V7 packets interleaved. Oracle = independent RFC 7011 reference decoder + template-cache model: message header, every template / options-template record (element ids without E bit, lengths, enterprise numbers), every data set's flat (index, element, value) sequence, padding, set count in order; cache = model after every call. strict phase: one template record per template set; wide phase adds several template records per set (D7) which must match the finding's signature exactly. non-trivial = >= 1 data set with >= 2 records under a template with >= 2 fields; distinct by digest.",
    assumptions: &["which data type an element has is taken from the library's public lookup (pinned by the suite's lookup snapshots); slicing and interpretation are the harness' own"],
};

pub fn oracle(case: &Case) -> Outcome {
    stream_outcome(case, StreamOpts { fixed: false, ..StreamOpts::ALL })
}

pub const MIX: Mix = Mix { fixed: 1, v9: 0, ipfix: 8 };

pub fn cfg(thorough: bool) -> StreamCfg {
    StreamCfg {
        mix: MIX,
        ids: (2, 5),
        max_fields: 12,
        calls: (1, 5),
        pkts_per_call: (2, 3),
        max_sets: 6,
        max_recs: if thorough { 12 } else { 7 },
        mixed_kinds: false,
    }
}

pub fn run(ctx: &Ctx) {
    ctx.replay_findings(&oracle);
    let c = cfg(ctx.thorough());
    ctx.search("strict", ctx.n(250_000, 30_000_000), &move || gen::conformant_case(c, BuildOpts::STRICT), &oracle);
    ctx.search("wide", ctx.n(80_000, 8_000_000), &move || gen::conformant_case(c, BuildOpts::WIDE), &oracle);
    let big = StreamCfg { max_recs: 170, calls: (1, 2), max_sets: 3, ..c };
    ctx.search("many-records", ctx.n(4_000, 400_000), &move || gen::conformant_case(big, BuildOpts::STRICT), &oracle);
    let wide = StreamCfg { max_fields: 90, ids: (1, 2), calls: (1, 2), max_sets: 3, max_recs: 3, ..c };
    ctx.search("wide-templates", ctx.n(10_000, 1_000_000), &move || gen::conformant_case(wide, BuildOpts::STRICT), &oracle);
    // an id may be a template and, later (also later in the same packet), an options template, and back
    let mixed = StreamCfg { mixed_kinds: true, ..c };
    ctx.search("kind-changes", ctx.n(40_000, 4_000_000), &move || gen::conformant_case(mixed, BuildOpts::STRICT), &oracle);
    // counts on and around 2^8, 2^10, 2^12, 2^14 (records, fields, sets, template definitions)
    ctx.enumerate("boundary-counts", gen::boundary_count_cases(crate::wire::Proto::Ipfix), false, &oracle);
    // one or two ids redefined over and over (100-900 calls, data after every redefinition; several hundred redefinitions of one id)
    let chain = StreamCfg { ids: (1, 2), max_fields: 4, calls: (100, 900), pkts_per_call: (1, 1), max_sets: 2, max_recs: 2, ..c };
    ctx.search("redefinition-chain", ctx.n(300, 30_000), &move || gen::conformant_case(chain, BuildOpts::STRICT), &oracle);
    // datagram-sized packets under the full decode oracle: thousands of records per set,
    // thousands of fields per template, hundreds of sets per packet
    for (k, name) in ["datagram-sized-many-records", "datagram-sized-many-fields", "datagram-sized-many-sets"].iter().enumerate() {
        let big = StreamCfg::datagram_sized(c.mix, k);
        ctx.search(name, ctx.n(120, 6_000), &move || gen::conformant_case(big, BuildOpts::STRICT.big()), &oracle);
    }
}
