//! Runner: seeds, sharding, classification, distinct/non-trivial counting, shrinking,
//! replay files, known-finding handling, evidence.

use crate::wire::{fnv, hex, unhex};
use proptest::strategy::{BoxedStrategy, Strategy};
use proptest::test_runner::{Config, RngSeed, TestCaseError, TestError, TestRunner};
use serde_json::{json, Value};
use std::collections::{BTreeMap, BTreeSet, HashSet};
use std::sync::atomic::{AtomicBool, Ordering};
use std::sync::Mutex;
use std::time::Instant;

pub const VERIF_DIR: &str = "/verif";

/// where evidence and replay files go: /verif/evidence and /verif/replays, except for
/// sensitivity runs against a scratch copy of the repository (NFV_OUT_DIR set by verif.sh when
/// NFV_REPO is), which must not overwrite the evidence of the real tree
pub fn out_dir(kind: &str) -> String {
    match std::env::var("NFV_OUT_DIR") {
        Ok(d) if !d.is_empty() => format!("{}/{}", d, kind),
        _ => format!("{}/{}", VERIF_DIR, kind),
    }
}

// ---------------------------------------------------------------------------------------
// cases
// ---------------------------------------------------------------------------------------

#[derive(Clone, Debug, Default, PartialEq)]
pub struct Call {
    /// index of the parser instance this buffer is fed to
    pub parser: usize,
    /// the buffer, as a list of atoms (packets); fed concatenated
    pub packets: Vec<Vec<u8>>,
}
impl Call {
    pub fn one(buf: Vec<u8>) -> Call {
        Call {
            parser: 0,
            packets: vec![buf],
        }
    }
    pub fn buf(&self) -> Vec<u8> {
        self.packets.concat()
    }
}

/// A generated case in its executable form: parser configurations + history of buffers.
/// This is also the replay-file format (hex buffers), so a replay needs no generator.
#[derive(Clone, Debug, Default, PartialEq)]
pub struct Case {
    /// allowed-version set per parser instance (index = parser number)
    pub allowed: Vec<Vec<u16>>,
    pub calls: Vec<Call>,
    /// property-specific scalars (e.g. family / size for C15)
    pub params: BTreeMap<String, i64>,
}

pub const DEFAULT_ALLOWED: [u16; 4] = [5, 7, 9, 10];

impl Case {
    pub fn single(buf: Vec<u8>) -> Case {
        Case {
            allowed: vec![DEFAULT_ALLOWED.to_vec()],
            calls: vec![Call::one(buf)],
            params: BTreeMap::new(),
        }
    }
    pub fn history(bufs: Vec<Vec<u8>>) -> Case {
        Case {
            allowed: vec![DEFAULT_ALLOWED.to_vec()],
            calls: bufs.into_iter().map(Call::one).collect(),
            params: BTreeMap::new(),
        }
    }
    pub fn allowed_of(&self, parser: usize) -> Vec<u16> {
        self.allowed
            .get(parser)
            .cloned()
            .unwrap_or_else(|| DEFAULT_ALLOWED.to_vec())
    }
    pub fn n_parsers(&self) -> usize {
        self.calls
            .iter()
            .map(|c| c.parser + 1)
            .max()
            .unwrap_or(1)
            .max(self.allowed.len())
    }
    pub fn param(&self, k: &str) -> i64 {
        *self.params.get(k).unwrap_or(&0)
    }
    pub fn digest(&self) -> u64 {
        let mut parts: Vec<Vec<u8>> = vec![];
        for a in &self.allowed {
            let mut s = a.clone();
            s.sort();
            parts.push(s.iter().flat_map(|v| v.to_be_bytes()).collect());
        }
        for c in &self.calls {
            parts.push(vec![c.parser as u8, 0xfe]);
            for p in &c.packets {
                parts.push(p.clone());
            }
        }
        for (k, v) in &self.params {
            parts.push(k.as_bytes().to_vec());
            parts.push(v.to_be_bytes().to_vec());
        }
        let refs: Vec<&[u8]> = parts.iter().map(|p| p.as_slice()).collect();
        fnv(&refs)
    }
    pub fn total_bytes(&self) -> usize {
        self.calls
            .iter()
            .map(|c| c.packets.iter().map(|p| p.len()).sum::<usize>())
            .sum()
    }
    pub fn to_json(&self, max_hex: usize) -> Value {
        let cut = |p: &Vec<u8>| -> Value {
            if p.len() > max_hex {
                json!(format!("{}...(+{} bytes)", hex(&p[..max_hex]), p.len() - max_hex))
            } else {
                json!(hex(p))
            }
        };
        json!({
            "allowed": self.allowed,
            "calls": self.calls.iter().map(|c| json!({
                "parser": c.parser,
                "packets": c.packets.iter().map(cut).collect::<Vec<_>>(),
            })).collect::<Vec<_>>(),
            "params": self.params,
        })
    }
    pub fn from_json(v: &Value) -> Option<Case> {
        let allowed = v
            .get("allowed")?
            .as_array()?
            .iter()
            .map(|a| {
                a.as_array()
                    .map(|x| x.iter().filter_map(|n| n.as_u64().map(|n| n as u16)).collect())
                    .unwrap_or_default()
            })
            .collect();
        let mut calls = vec![];
        for c in v.get("calls")?.as_array()? {
            let parser = c.get("parser").and_then(|p| p.as_u64()).unwrap_or(0) as usize;
            let mut packets = vec![];
            for p in c.get("packets")?.as_array()? {
                packets.push(unhex(p.as_str()?)?);
            }
            calls.push(Call { parser, packets });
        }
        let mut params = BTreeMap::new();
        if let Some(o) = v.get("params").and_then(|p| p.as_object()) {
            for (k, x) in o {
                params.insert(k.clone(), x.as_i64().unwrap_or(0));
            }
        }
        Some(Case {
            allowed,
            calls,
            params,
        })
    }
}

// ---------------------------------------------------------------------------------------
// outcomes
// ---------------------------------------------------------------------------------------

#[derive(Clone, Debug, PartialEq)]
pub enum Verdict {
    Pass,
    /// the property is violated on this case
    Violation(String),
    /// the harness contradicts itself (generator / reference decoder bug): exit 2
    Harness(String),
}

#[derive(Clone, Debug)]
pub struct Outcome {
    pub verdict: Verdict,
    pub nontrivial: bool,
    pub labels: Vec<String>,
    /// signatures of known findings observed (and forgiven) on this case
    pub known: Vec<String>,
}
impl Outcome {
    pub fn pass() -> Outcome {
        Outcome {
            verdict: Verdict::Pass,
            nontrivial: false,
            labels: vec![],
            known: vec![],
        }
    }
    pub fn violation(s: impl Into<String>) -> Outcome {
        Outcome {
            verdict: Verdict::Violation(s.into()),
            nontrivial: true,
            labels: vec![],
            known: vec![],
        }
    }
    pub fn harness(s: impl Into<String>) -> Outcome {
        Outcome {
            verdict: Verdict::Harness(s.into()),
            nontrivial: false,
            labels: vec![],
            known: vec![],
        }
    }
    pub fn label(&mut self, l: impl Into<String>) {
        let l = l.into();
        if !self.labels.contains(&l) {
            self.labels.push(l);
        }
    }
    pub fn hit(&mut self, sig: impl Into<String>) {
        let s = sig.into();
        if !self.known.contains(&s) {
            self.known.push(s);
        }
    }
    pub fn is_pass(&self) -> bool {
        self.verdict == Verdict::Pass
    }
}

// ---------------------------------------------------------------------------------------
// known findings
// ---------------------------------------------------------------------------------------

#[derive(Clone, Debug)]
pub struct Finding {
    pub open: bool,
    pub property: String,
    pub sig: String,
    pub desc: String,
    pub witness: Option<String>,
}

pub fn load_findings() -> Vec<Finding> {
    let path = format!("{}/KNOWN_FINDINGS.txt", VERIF_DIR);
    let text = std::fs::read_to_string(&path).unwrap_or_default();
    let mut out = vec![];
    for line in text.lines() {
        let line = line.trim();
        let (open, rest) = if let Some(r) = line.strip_prefix("known:") {
            (true, r)
        } else if let Some(r) = line.strip_prefix("fixed:") {
            (false, r)
        } else {
            continue;
        };
        let parts: Vec<&str> = rest.split("::").map(|s| s.trim()).collect();
        let mut property = String::new();
        let mut sig = String::new();
        let mut witness = None;
        for tok in parts[0].split_whitespace() {
            if let Some(p) = tok.strip_prefix("property=") {
                property = p.to_string();
            }
            if let Some(s) = tok.strip_prefix("sig=") {
                sig = s.to_string();
            }
        }
        for p in &parts {
            for tok in p.split_whitespace() {
                if let Some(w) = tok.strip_prefix("witness=") {
                    witness = Some(w.to_string());
                }
            }
        }
        let desc = parts.get(1).map(|s| s.to_string()).unwrap_or_default();
        out.push(Finding {
            open,
            property,
            sig,
            desc,
            witness,
        });
    }
    out
}

// ---------------------------------------------------------------------------------------
// context / statistics
// ---------------------------------------------------------------------------------------

#[derive(Default)]
pub struct Stats {
    pub evaluations: u64,
    pub nontrivial: HashSet<u64>,
    pub labels: BTreeMap<String, u64>,
    pub known: BTreeMap<String, u64>,
    pub samples: Vec<Value>,
    pub phases: Vec<Value>,
}

pub struct Failure {
    pub msg: String,
    pub case: Case,
}

pub struct Ctx {
    pub id: String,
    pub tier: String,
    pub seed: u64,
    pub threads: usize,
    pub open_sigs: BTreeSet<String>,
    pub findings: Vec<Finding>,
    pub stats: Mutex<Stats>,
    pub failure: Mutex<Option<Failure>>,
    pub harness_err: Mutex<Option<String>>,
    pub stop: AtomicBool,
    pub start: Instant,
    pub extra: Mutex<BTreeMap<String, Value>>,
}

pub type Oracle<'a> = &'a (dyn Fn(&Case) -> Outcome + Sync);

thread_local! {
    static PANIC_MSG: std::cell::RefCell<Option<String>> = const { std::cell::RefCell::new(None) };
}

pub fn install_quiet_panic_hook() {
    std::panic::set_hook(Box::new(|info| {
        let loc = info
            .location()
            .map(|l| format!("{}:{}", l.file(), l.line()))
            .unwrap_or_default();
        let msg = if let Some(s) = info.payload().downcast_ref::<&str>() {
            s.to_string()
        } else if let Some(s) = info.payload().downcast_ref::<String>() {
            s.clone()
        } else {
            "panic".to_string()
        };
        if std::env::var_os("NFV_PANIC_VERBOSE").is_some() || loc.starts_with("src/") {
            eprintln!("panic: {} at {}", msg, loc);
        }
        PANIC_MSG.with(|m| *m.borrow_mut() = Some(format!("{} at {}", msg, loc)));
    }));
}

pub fn take_panic_msg() -> String {
    PANIC_MSG
        .with(|m| m.borrow_mut().take())
        .unwrap_or_else(|| "panic".into())
}

/// a panic whose location is inside the harness crate (relative path `src/...`) is a
/// harness bug, not a finding about the library (whose locations are `/repo/src/...`)
pub fn is_harness_panic(m: &str) -> bool {
    m.rsplit(" at ").next().map(|l| l.starts_with("src/")).unwrap_or(false)
}

/// run the oracle, turning a panic (of the library or of the harness) into a violation
pub fn guarded(oracle: Oracle, case: &Case) -> Outcome {
    match std::panic::catch_unwind(std::panic::AssertUnwindSafe(|| oracle(case))) {
        Ok(o) => o,
        Err(_) => {
            let m = take_panic_msg();
            if is_harness_panic(&m) {
                Outcome::harness(format!("harness panicked: {}", m))
            } else {
                Outcome::violation(format!("panic while checking: {}", m))
            }
        }
    }
}

fn mix(seed: u64, name: &str, shard: u64) -> u64 {
    let h = fnv(&[&seed.to_be_bytes(), name.as_bytes(), &shard.to_be_bytes()]);
    h ^ (h >> 29)
}

impl Ctx {
    pub fn new(id: &str, tier: &str, seed: u64) -> Ctx {
        let findings = load_findings();
        let open_sigs = findings
            .iter()
            .filter(|f| f.open && f.property == id)
            .map(|f| f.sig.clone())
            .collect();
        let threads = std::env::var("NFV_THREADS")
            .ok()
            .and_then(|s| s.parse().ok())
            .unwrap_or(16);
        Ctx {
            id: id.to_string(),
            tier: tier.to_string(),
            seed,
            threads,
            open_sigs,
            findings,
            stats: Mutex::new(Stats::default()),
            failure: Mutex::new(None),
            harness_err: Mutex::new(None),
            stop: AtomicBool::new(false),
            start: Instant::now(),
            extra: Mutex::new(BTreeMap::new()),
        }
    }
    pub fn thorough(&self) -> bool {
        self.tier == "thorough"
    }
    /// pick a case count by tier
    pub fn n(&self, quick: u32, thorough: u32) -> u32 {
        let scale = std::env::var("NFV_SCALE")
            .ok()
            .and_then(|s| s.parse::<f64>().ok())
            // thorough counts in the property files are upper targets; the default runs 40 %
            // of them so that one thorough check stays at roughly half an hour on an idle
            // 16-core machine (NFV_SCALE=1 runs them in full)
            .unwrap_or(if self.thorough() { 0.4 } else { 1.0 });
        let b = if self.thorough() { thorough } else { quick };
        ((b as f64) * scale).max(1.0) as u32
    }
    pub fn failed(&self) -> bool {
        self.stop.load(Ordering::SeqCst)
    }

    /// post-process an outcome: a forgiven signature must be an *open* listed finding
    fn settle(&self, mut o: Outcome) -> Outcome {
        if o.is_pass() {
            for s in &o.known {
                if !self.open_sigs.contains(s) {
                    o.verdict = Verdict::Violation(format!(
                        "behaviour matches finding signature '{}' which is not an open entry of KNOWN_FINDINGS.txt for {}",
                        s, self.id
                    ));
                    break;
                }
            }
        }
        o
    }

    fn record(&self, case: &Case, o: &Outcome) {
        let mut st = self.stats.lock().unwrap();
        st.evaluations += 1;
        for l in &o.labels {
            *st.labels.entry(l.clone()).or_insert(0) += 1;
        }
        for k in &o.known {
            *st.known.entry(k.clone()).or_insert(0) += 1;
        }
        if o.nontrivial {
            let d = case.digest();
            if st.nontrivial.insert(d) && st.samples.len() < 4 {
                let mut j = case.to_json(160);
                j["labels"] = json!(o.labels);
                st.samples.push(j);
            }
        }
    }

    fn set_failure(&self, msg: String, case: Case) {
        let mut f = self.failure.lock().unwrap();
        if f.is_none() {
            *f = Some(Failure { msg, case });
        }
        self.stop.store(true, Ordering::SeqCst);
    }
    fn set_harness(&self, msg: String, case: &Case) {
        let mut f = self.harness_err.lock().unwrap();
        if f.is_none() {
            let path = format!("{}/{}-harness.json", out_dir("replays"), self.id);
            let _ = std::fs::create_dir_all(out_dir("replays"));
            let _ = std::fs::write(&path, serde_json::to_string_pretty(&case.to_json(usize::MAX)).unwrap());
            *f = Some(format!("{} (case saved to {})", msg, path));
        }
        self.stop.store(true, Ordering::SeqCst);
    }

    /// evaluate one explicit case (enumerations, witnesses, stress families)
    pub fn eval(&self, case: &Case, oracle: Oracle) -> Outcome {
        let o = self.settle(guarded(oracle, case));
        self.record(case, &o);
        match &o.verdict {
            Verdict::Violation(m) => self.set_failure(m.clone(), case.clone()),
            Verdict::Harness(m) => self.set_harness(m.clone(), case),
            Verdict::Pass => {}
        }
        o
    }

    /// exhaustive / explicit enumeration of cases, spread over the worker threads
    pub fn enumerate(&self, name: &str, cases: Vec<Case>, exhaustive: bool, oracle: Oracle) {
        if self.failed() {
            return;
        }
        let n = cases.len();
        let t0 = Instant::now();
        let chunks: Vec<&[Case]> = cases.chunks(((n + self.threads - 1) / self.threads).max(1)).collect();
        std::thread::scope(|s| {
            for ch in chunks {
                std::thread::Builder::new()
                    .stack_size(512 << 20)
                    .spawn_scoped(s, move || {
                        for c in ch {
                            if self.failed() {
                                break;
                            }
                            self.eval(c, oracle);
                        }
                    })
                    .unwrap();
            }
        });
        self.stats.lock().unwrap().phases.push(json!({
            "phase": name, "kind": "enumeration", "cases": n, "exhaustive": exhaustive,
            "wall_s": t0.elapsed().as_secs_f64()
        }));
    }

    /// random search: `cases` generated cases in total, sharded over the threads, each
    /// shard an independent proptest runner seeded from (VERIF_SEED, phase name, shard)
    pub fn search(
        &self,
        name: &str,
        cases: u32,
        strat: &(dyn Fn() -> BoxedStrategy<Case> + Sync),
        oracle: Oracle,
    ) {
        if self.failed() {
            return;
        }
        let t0 = Instant::now();
        let shards = self.threads.min(cases as usize).max(1);
        let per = (cases as usize + shards - 1) / shards;
        std::thread::scope(|s| {
            for sh in 0..shards {
                std::thread::Builder::new()
                    .stack_size(512 << 20)
                    .spawn_scoped(s, move || self.run_shard(name, sh as u64, per as u32, strat, oracle))
                    .unwrap();
            }
        });
        self.stats.lock().unwrap().phases.push(json!({
            "phase": name, "kind": "random search (proptest)", "cases": per * shards, "shards": shards,
            "wall_s": t0.elapsed().as_secs_f64()
        }));
    }

    fn run_shard(
        &self,
        name: &str,
        shard: u64,
        cases: u32,
        strat: &(dyn Fn() -> BoxedStrategy<Case> + Sync),
        oracle: Oracle,
    ) {
        let cfg = Config {
            cases,
            failure_persistence: None,
            rng_seed: RngSeed::Fixed(mix(self.seed, name, shard)),
            max_shrink_iters: 4000,
            max_global_rejects: 100_000,
            ..Config::default()
        };
        let mut runner = TestRunner::new(cfg);
        let strategy = strat();
        let failed_here = std::cell::Cell::new(false);
        let res = runner.run(&strategy, |case| {
            if failed_here.get() {
                // shrinking: re-run silently; pointless once another shard has reported
                if self.failed() {
                    return Ok(());
                }
                let o = self.settle(guarded(oracle, &case));
                return match o.verdict {
                    Verdict::Violation(m) => Err(TestCaseError::fail(m)),
                    _ => Ok(()),
                };
            }
            if self.failed() {
                return Ok(());
            }
            let o = self.settle(guarded(oracle, &case));
            self.record(&case, &o);
            match o.verdict {
                Verdict::Pass => Ok(()),
                Verdict::Violation(m) => {
                    failed_here.set(true);
                    Err(TestCaseError::fail(m))
                }
                Verdict::Harness(m) => {
                    self.set_harness(m, &case);
                    Ok(())
                }
            }
        });
        match res {
            Ok(()) => {}
            Err(TestError::Fail(reason, case)) => {
                self.set_failure(reason.message().to_string(), case);
            }
            Err(TestError::Abort(reason)) => {
                let mut f = self.harness_err.lock().unwrap();
                if f.is_none() {
                    *f = Some(format!("proptest aborted in phase {}: {}", name, reason.message()));
                }
                self.stop.store(true, Ordering::SeqCst);
            }
        }
    }

    /// replay the witness of every open finding of this property; print KNOWN-FINDING
    /// lines for those that still reproduce. Witnesses of fixed findings are replayed as
    /// plain regression cases.
    pub fn replay_findings(&self, oracle: Oracle) {
        for f in self.findings.iter().filter(|f| f.property == self.id) {
            let Some(w) = &f.witness else { continue };
            let path = format!("{}/{}", VERIF_DIR, w);
            let Ok(text) = std::fs::read_to_string(&path) else {
                self.harness_err
                    .lock()
                    .unwrap()
                    .get_or_insert(format!("witness file {} missing", path));
                self.stop.store(true, Ordering::SeqCst);
                continue;
            };
            let Some(case) = serde_json::from_str::<Value>(&text)
                .ok()
                .and_then(|v| Case::from_json(&v))
            else {
                self.harness_err
                    .lock()
                    .unwrap()
                    .get_or_insert(format!("witness file {} unreadable", path));
                self.stop.store(true, Ordering::SeqCst);
                continue;
            };
            let o = self.eval(&case, oracle);
            if f.open && o.is_pass() && o.known.contains(&f.sig) {
                println!("KNOWN-FINDING: property={} {} [{}]", self.id, f.desc, f.sig);
            } else if f.open && o.is_pass() {
                println!(
                    "note: listed finding {} [{}] no longer reproduces on its witness",
                    self.id, f.sig
                );
            }
        }
    }

    pub fn put_extra(&self, k: &str, v: Value) {
        self.extra.lock().unwrap().insert(k.to_string(), v);
    }

    /// write evidence, print the verdict, return the exit code
    pub fn finish(&self, rule: &str, assumptions: &[&str]) -> i32 {
        let wall = self.start.elapsed().as_secs_f64();
        let st = self.stats.lock().unwrap();
        let failure = self.failure.lock().unwrap();
        let harness = self.harness_err.lock().unwrap();
        let mut replay_path = None;
        if let Some(f) = failure.as_ref() {
            let dir = out_dir("replays");
            let _ = std::fs::create_dir_all(&dir);
            let path = format!("{}/{}-{:016x}.json", dir, self.id, f.case.digest());
            let mut j = f.case.to_json(usize::MAX);
            j["property"] = json!(self.id);
            j["message"] = json!(f.msg);
            let _ = std::fs::write(&path, serde_json::to_string_pretty(&j).unwrap());
            replay_path = Some(path);
        }
        let mut coverage = json!({
            "evaluations": st.evaluations,
            "distinct_nontrivial": st.nontrivial.len(),
            "rule": rule,
            "samples": st.samples,
            "class_histogram": st.labels,
            "known_finding_hits": st.known,
            "phases": st.phases,
            "exhaustive": false,
        });
        for (k, v) in self.extra.lock().unwrap().iter() {
            coverage[k] = v.clone();
        }
        let ev = json!({
            "property_id": self.id,
            "tier": self.tier,
            "seed": self.seed,
            "level": "exploration",
            "coverage": coverage,
            "assumptions": assumptions,
            "wall_s": wall,
            "violations": if failure.is_some() { 1 } else { 0 },
            "inconclusive": harness.clone(),
        });
        let _ = std::fs::create_dir_all(out_dir("evidence"));
        let _ = std::fs::write(
            format!("{}/{}.json", out_dir("evidence"), self.id),
            serde_json::to_string_pretty(&ev).unwrap(),
        );
        if let Some(f) = failure.as_ref() {
            println!("violation detail: {}", f.msg);
            println!(
                "VIOLATION property={} replay={}",
                self.id,
                replay_path.unwrap()
            );
            return 1;
        }
        if let Some(h) = harness.as_ref() {
            println!("INCONCLUSIVE property={} {}", self.id, h);
            return 2;
        }
        println!(
            "OK property={} tier={} seed={} evaluations={} distinct_nontrivial={} wall_s={:.1}",
            self.id,
            self.tier,
            self.seed,
            st.evaluations,
            st.nontrivial.len(),
            wall
        );
        0
    }
}

/// convenience: box a strategy producing cases
pub fn boxed<S: Strategy<Value = Case> + 'static>(s: S) -> BoxedStrategy<Case> {
    s.boxed()
}
