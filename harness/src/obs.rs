//! Normalised views of what the library returned: byte spans of result elements (the C02
//! decomposition), cache contents as `wire::Def`s, flattened data records, value equality.

use crate::refdec::Exp;
use crate::wire::*;
use netflow_parser::variable_versions::data_number::{DataNumber, FieldValue};
use netflow_parser::variable_versions::ipfix_lookup::IPFixField;
use netflow_parser::variable_versions::v9_lookup::V9Field;
use netflow_parser::variable_versions::{ipfix, v9};
use netflow_parser::{NetflowPacket, NetflowParser};
use std::collections::{BTreeMap, HashSet};

pub fn new_parser(allowed: &[u16]) -> NetflowParser {
    let mut p = NetflowParser::default();
    p.allowed_versions = allowed.iter().cloned().collect::<HashSet<u16>>();
    p
}

pub fn all_versions() -> HashSet<u16> {
    (0..=u16::MAX).collect()
}

/// copy the four public cache maps (twin parsers for differential checks)
pub fn clone_caches(src: &NetflowParser, dst: &mut NetflowParser) {
    dst.v9_parser.templates = src.v9_parser.templates.clone();
    dst.v9_parser.options_templates = src.v9_parser.options_templates.clone();
    dst.ipfix_parser.templates = src.ipfix_parser.templates.clone();
    dst.ipfix_parser.options_templates = src.ipfix_parser.options_templates.clone();
}

/// Complete rendering of a result element for equality between two runs (twin parsers,
/// different partitions of one stream): the derived Debug text for decoded packets; for an
/// Error element the kind of error and its `remaining` bytes - not the message text inside
/// it, about which no property says anything (it may mention offsets or lengths that
/// legitimately differ between two deliveries of the same packets)
pub fn render(el: &NetflowPacket) -> String {
    match el {
        NetflowPacket::Error(e) => {
            let kind = match &e.error {
                netflow_parser::NetflowParseError::Incomplete(_) => "Incomplete",
                netflow_parser::NetflowParseError::Partial(_) => "Partial",
                netflow_parser::NetflowParseError::UnallowedVersion(_) => "UnallowedVersion",
                netflow_parser::NetflowParseError::UnknownVersion(_) => "UnknownVersion",
                #[allow(unreachable_patterns)]
                _ => "other",
            };
            format!("Error({}, remaining = {})", kind, hex(&e.remaining))
        }
        other => format!("{:?}", other),
    }
}

pub fn version_of(p: &NetflowPacket) -> Option<u16> {
    match p {
        NetflowPacket::V5(_) => Some(5),
        NetflowPacket::V7(_) => Some(7),
        NetflowPacket::V9(_) => Some(9),
        NetflowPacket::IPFix(_) => Some(10),
        NetflowPacket::Error(_) => None,
    }
}

/// wire length of a non-error element as implied by its own header fields
pub fn wire_len(p: &NetflowPacket) -> Option<usize> {
    match p {
        NetflowPacket::V5(v) => Some(24 + 48 * v.header.count as usize),
        NetflowPacket::V7(v) => Some(24 + 52 * v.header.count as usize),
        NetflowPacket::IPFix(m) => Some((m.header.length as usize).max(16)),
        NetflowPacket::V9(v) => Some(
            20 + v
                .flowsets
                .iter()
                .map(|f| (f.header.length as usize).max(4))
                .sum::<usize>(),
        ),
        NetflowPacket::Error(_) => None,
    }
}

#[derive(Debug, Clone, Copy, PartialEq, Eq)]
pub struct Span {
    pub start: usize,
    pub len: usize,
}

/// The C02 oracle: decompose `buf` according to `res`. Returns the spans of the non-error
/// elements and the offset where decoding stopped, or a description of the violation.
pub fn decompose(
    buf: &[u8],
    allowed: &HashSet<u16>,
    res: &[NetflowPacket],
) -> Result<(Vec<Span>, usize), String> {
    if buf.is_empty() {
        return if res.is_empty() {
            Ok((vec![], 0))
        } else {
            Err(format!("empty buffer yields {} elements", res.len()))
        };
    }
    let mut spans = vec![];
    let mut off = 0usize;
    for (i, el) in res.iter().enumerate() {
        match el {
            NetflowPacket::Error(e) => {
                if i + 1 != res.len() {
                    return Err(format!("error element at position {} of {}", i, res.len()));
                }
                if e.remaining != buf[off..] {
                    return Err(format!(
                        "error.remaining has {} bytes, unconsumed suffix at offset {} has {} bytes{}",
                        e.remaining.len(),
                        off,
                        buf.len() - off,
                        if e.remaining.len() == buf.len() - off { " (content differs)" } else { "" }
                    ));
                }
                return Ok((spans, off));
            }
            _ => {
                let l = wire_len(el).unwrap();
                if off + l > buf.len() {
                    return Err(format!(
                        "element {} claims {} bytes at offset {} but buffer has {}",
                        i,
                        l,
                        off,
                        buf.len()
                    ));
                }
                if l < 2 || off + 2 > buf.len() {
                    return Err(format!("element {} too short", i));
                }
                let v = be16(buf, off);
                if Some(v) != version_of(el) {
                    return Err(format!(
                        "element {} is {:?} but bytes at offset {} carry version {}",
                        i,
                        version_of(el),
                        off,
                        v
                    ));
                }
                if let NetflowPacket::V5(p) = el {
                    if p.header.count as usize != p.flowsets.len() {
                        return Err(format!(
                            "V5 count {} but {} records",
                            p.header.count,
                            p.flowsets.len()
                        ));
                    }
                }
                if let NetflowPacket::V7(p) = el {
                    if p.header.count as usize != p.flowsets.len() {
                        return Err(format!(
                            "V7 count {} but {} records",
                            p.header.count,
                            p.flowsets.len()
                        ));
                    }
                }
                spans.push(Span { start: off, len: l });
                off += l;
            }
        }
    }
    // ended without an error element
    if off < buf.len() {
        if buf.len() - off < 2 {
            return Err(format!(
                "list ends without error at offset {} with {} byte(s) left",
                off,
                buf.len() - off
            ));
        }
        let v = be16(buf, off);
        if allowed.contains(&v) {
            return Err(format!(
                "list ends without error at offset {} of {} although next version {} is allowed",
                off,
                buf.len(),
                v
            ));
        }
    }
    Ok((spans, off))
}

// ---------------------------------------------------------------------------------------
// caches
// ---------------------------------------------------------------------------------------

pub fn def_of_v9_template(t: &v9::Template) -> Def {
    Def {
        kind: Kind::Plain,
        scope_n: 0,
        fields: t
            .fields
            .iter()
            .map(|f| FieldSpec {
                ie: f.field_type_number,
                len: f.field_length,
                ent: None,
            })
            .collect(),
    }
}
pub fn def_of_v9_options(t: &v9::OptionsTemplate) -> Def {
    let mut fields: Vec<FieldSpec> = t
        .scope_fields
        .iter()
        .map(|f| FieldSpec {
            ie: f.field_type_number,
            len: f.field_length,
            ent: None,
        })
        .collect();
    fields.extend(t.option_fields.iter().map(|f| FieldSpec {
        ie: f.field_type_number,
        len: f.field_length,
        ent: None,
    }));
    Def {
        kind: Kind::Options,
        scope_n: t.scope_fields.len() as u16,
        fields,
    }
}
fn ipfix_fields(fs: &[ipfix::TemplateField]) -> Vec<FieldSpec> {
    fs.iter()
        .map(|f| FieldSpec {
            ie: f.field_type_number,
            len: f.field_length,
            ent: f.enterprise_number,
        })
        .collect()
}
pub fn def_of_ipfix_template(t: &ipfix::Template) -> Def {
    Def {
        kind: Kind::Plain,
        scope_n: 0,
        fields: ipfix_fields(&t.fields),
    }
}
pub fn def_of_ipfix_options(t: &ipfix::OptionsTemplate) -> Def {
    Def {
        kind: Kind::Options,
        scope_n: t.scope_field_count,
        fields: ipfix_fields(&t.fields),
    }
}

/// Library cache normalised to (proto, kind, id) -> Def. Ids present in both maps of a
/// protocol are reported under both kinds.
pub fn lib_cache(p: &NetflowParser) -> BTreeMap<(Proto, Kind, u16), Def> {
    let mut m = BTreeMap::new();
    for (id, t) in &p.v9_parser.templates {
        m.insert((Proto::V9, Kind::Plain, *id), def_of_v9_template(t));
    }
    for (id, t) in &p.v9_parser.options_templates {
        m.insert((Proto::V9, Kind::Options, *id), def_of_v9_options(t));
    }
    for (id, t) in &p.ipfix_parser.templates {
        m.insert((Proto::Ipfix, Kind::Plain, *id), def_of_ipfix_template(t));
    }
    for (id, t) in &p.ipfix_parser.options_templates {
        m.insert((Proto::Ipfix, Kind::Options, *id), def_of_ipfix_options(t));
    }
    m
}

pub fn model_cache_norm(c: &Cache) -> BTreeMap<(Proto, Kind, u16), Def> {
    let mut m = BTreeMap::new();
    for (id, d) in &c.v9 {
        m.insert((Proto::V9, d.kind, *id), d.clone());
    }
    for (id, d) in &c.ipfix {
        m.insert((Proto::Ipfix, d.kind, *id), d.clone());
    }
    m
}

/// deterministic textual form of the library caches (for equality between parsers)
pub fn cache_fingerprint(p: &NetflowParser) -> String {
    format!("{:?}", lib_cache(p))
}

// ---------------------------------------------------------------------------------------
// values
// ---------------------------------------------------------------------------------------

pub fn val_eq(exp: &Exp, got: &FieldValue) -> bool {
    match (exp, got) {
        (Exp::U8(a), FieldValue::DataNumber(DataNumber::U8(b))) => a == b,
        (Exp::U16(a), FieldValue::DataNumber(DataNumber::U16(b))) => a == b,
        (Exp::U24(a), FieldValue::DataNumber(DataNumber::U24(b))) => a == b,
        (Exp::U32(a), FieldValue::DataNumber(DataNumber::U32(b))) => a == b,
        (Exp::U64(a), FieldValue::DataNumber(DataNumber::U64(b))) => a == b,
        (Exp::U128(a), FieldValue::DataNumber(DataNumber::U128(b))) => a == b,
        (Exp::I24(a), FieldValue::DataNumber(DataNumber::I24(b))) => a == b,
        (Exp::I32(a), FieldValue::DataNumber(DataNumber::I32(b))) => a == b,
        (Exp::IWide(_, _), _) => false,
        (Exp::Opaque, _) => true,
        (Exp::Str(a, _), FieldValue::String(b)) => a == b,
        // bytes that are not valid UTF-8 may also be kept as they are (what a lossless
        // re-export needs): still "exactly the bytes the template allots to the field"
        (Exp::Str(_, raw), FieldValue::Vec(b)) => raw == b && std::str::from_utf8(raw).is_err(),
        (Exp::F64Bits(a), FieldValue::Float64(b)) => *a == b.to_bits(),
        (Exp::Dur(a), FieldValue::Duration(b)) => a == b,
        (Exp::Ip4(a), FieldValue::Ip4Addr(b)) => *a == b.octets(),
        (Exp::Ip6(a), FieldValue::Ip6Addr(b)) => *a == b.octets(),
        (Exp::Mac(a), FieldValue::MacAddr(b)) => a == b,
        (Exp::Bytes(a), FieldValue::Vec(b)) => a == b,
        (Exp::Proto(a), FieldValue::ProtocolType(p)) => {
            let name = crate::refdec::norm_name(&format!("{:?}", p));
            proto_variant_names(*a).contains(&name)
        }
        _ => false,
    }
}

/// V9 PROTOCOL is decoded to "the variant whose number is the byte": names per the IANA
/// table for 0..=144, `Reserved` for 255 and `Unknown` for numbers without a variant.
pub fn proto_variant_names(n: u8) -> Vec<String> {
    crate::refdec::iana_names(n)
}

// ---------------------------------------------------------------------------------------
// flattened data
// ---------------------------------------------------------------------------------------

/// one decoded field as the library reports it: (index inside the record, field name, value)
pub type FlatV9<'a> = (usize, V9Field, &'a FieldValue);
pub type FlatIpfix<'a> = (usize, IPFixField, &'a FieldValue);

pub fn flat_v9(d: &v9::Data) -> Vec<Vec<FlatV9<'_>>> {
    d.fields
        .iter()
        .map(|rec| rec.iter().map(|(i, (f, v))| (*i, *f, v)).collect())
        .collect()
}

/// IPFIX: the library emits one single-entry map per field; concatenate them
pub fn flat_ipfix(fields: &[BTreeMap<usize, (IPFixField, FieldValue)>]) -> Vec<FlatIpfix<'_>> {
    fields
        .iter()
        .flat_map(|m| m.iter().map(|(i, (f, v))| (*i, *f, v)))
        .collect()
}
