//! proptest strategies: plans for conformant streams, hostile input, fixed-format packets,
//! and the deterministic builder that turns a plan into bytes.
//!
//! All randomness comes from proptest. A *plan* is plain data (template pool, calls,
//! packets, sets, per-record entropy); `build` interprets it against a generator-side
//! template table so that data sets always match the template in effect (construction,
//! not rejection). Shrinking works on the plan.

use crate::engine::{Call, Case};
use crate::refdec::{dtype, legal_widths};
use crate::wire::*;
use netflow_parser::variable_versions::data_number::FieldDataType;
use proptest::collection::vec;
use proptest::prelude::*;
use std::collections::BTreeMap;

// ---------------------------------------------------------------------------------------
// plans
// ---------------------------------------------------------------------------------------

#[derive(Clone, Debug)]
pub struct Pool {
    pub ids: Vec<u16>,
    /// per id index: alternative definitions
    pub v9: Vec<Vec<Def>>,
    pub ipfix: Vec<Vec<Def>>,
}

#[derive(Clone, Debug)]
pub enum SetPlan {
    /// template records (id index, definition index); emitted as one set per run of equal kind
    Tpl(Vec<(u8, u8)>, u8),
    /// data for id index; one entropy blob per record; padding
    Data(u8, Vec<Vec<u8>>, u8),
}

#[derive(Clone, Debug)]
pub enum PktPlan {
    Fixed {
        v7: bool,
        hdr: Vec<u8>,
        recs: Vec<Vec<u8>>,
    },
    V9 {
        hdr: [u32; 4],
        sets: Vec<SetPlan>,
    },
    Ipfix {
        hdr: [u32; 3],
        sets: Vec<SetPlan>,
    },
}

#[derive(Clone, Debug)]
pub struct StreamPlan {
    pub pool: Pool,
    pub calls: Vec<Vec<PktPlan>>,
}

#[derive(Clone, Copy, Debug)]
pub struct BuildOpts {
    /// define a template (definition 0) right before data whose id is not yet defined
    pub auto_define: bool,
    /// allow several template records per IPFIX template set (finding D7)
    pub multi_tpl_ipfix: bool,
    /// allow several records per V9 options data flowset (finding D6)
    pub multi_optdata_v9: bool,
    /// strings carry valid UTF-8 only
    pub utf8_only: bool,
    /// IPFIX variable-length records never get shorter inside one set
    pub varlen_monotone: bool,
    /// V9 `count` = number of flowsets even for single-packet calls
    pub count_by_flowsets: bool,
    /// V9 PROTOCOL bytes are restricted to numbers with a named variant (0..=144, 255)
    pub proto_named: bool,
    /// never emit a template for this (protocol, id selector): its data sets are still
    /// encoded under definition 0, so that they decode once that template is delivered
    /// (C07)
    pub withhold: Option<(Proto, u8)>,
    /// upper bounds (bytes) for the body of one data set and for the sets of one packet;
    /// nothing is emitted beyond them, so packets stay below the datagram limit
    pub set_budget: usize,
    pub pkt_budget: usize,
}

impl BuildOpts {
    /// the same options with budgets at the datagram limit
    pub const fn big(self) -> BuildOpts {
        BuildOpts { set_budget: 64000, pkt_budget: 64000, ..self }
    }
    pub const STRICT: BuildOpts = BuildOpts {
        auto_define: true,
        multi_tpl_ipfix: false,
        multi_optdata_v9: false,
        utf8_only: false,
        varlen_monotone: false,
        count_by_flowsets: false,
        proto_named: false,
        withhold: None,
        set_budget: SET_BODY_BUDGET,
        pkt_budget: PKT_BUDGET,
    };
    pub const WIDE: BuildOpts = BuildOpts {
        auto_define: true,
        multi_tpl_ipfix: true,
        multi_optdata_v9: true,
        utf8_only: false,
        varlen_monotone: false,
        count_by_flowsets: false,
        proto_named: false,
        withhold: None,
        set_budget: SET_BODY_BUDGET,
        pkt_budget: PKT_BUDGET,
    };
}

// ---------------------------------------------------------------------------------------
// entropy -> values
// ---------------------------------------------------------------------------------------

pub struct Ent<'a> {
    d: &'a [u8],
    p: usize,
}
impl<'a> Ent<'a> {
    pub fn new(d: &'a [u8]) -> Self {
        Ent { d, p: 0 }
    }
    pub fn next(&mut self) -> u8 {
        if self.d.is_empty() {
            return 0;
        }
        let v = self.d[self.p % self.d.len()].wrapping_add((self.p / self.d.len()) as u8);
        self.p += 1;
        v
    }
}

const FLOATS: [u64; 16] = [
    0x7ff8000000000000, // NaN
    0x7ff0000000000000, // +inf
    0xfff0000000000000, // -inf
    0x8000000000000000, // -0.0
    0x0000000000000001, // subnormal
    0x3ff0000000000000, // 1.0
    0x405edd2f1a9fbe77, // 123.456
    0xffffffffffffffff, // NaN with payload
    0x3fb99999a0000000, // 0.1f32 widened (0.10000000149011612)
    0x3fb999999999999a, // 0.1
    0x3f50624de0000000, // 0.001f32 widened
    0x47efffffe0000000, // f32::MAX widened
    0x7fefffffffffffff, // f64::MAX
    0x4340000000000001, // 2^53 + 2
    0x44b52d02c7e14af6, // 1e23
    0x3810000000000000, // f32::MIN_POSITIVE widened
];

/// text with a special beginning: byte order mark, zero-width and line-separator characters,
/// text that looks like a JSON literal or number
const TEXT_HEADS: [&str; 10] = ["\u{feff}", "\u{200b}", "\u{2028}", "\u{fffd}", "null", "true", "-1", "1e5", "0x", " "];

fn utf8_fill(n: usize, e: &mut Ent) -> Vec<u8> {
    let mut v = Vec::with_capacity(n);
    let h = e.next();
    if h < 40 {
        let head = TEXT_HEADS[h as usize % TEXT_HEADS.len()].as_bytes();
        if head.len() <= n {
            v.extend_from_slice(head);
        }
    }
    while v.len() < n {
        let b = e.next();
        let left = n - v.len();
        if b % 7 == 0 && left >= 2 {
            v.extend_from_slice("é".as_bytes());
        } else if b % 11 == 0 && left >= 3 {
            v.extend_from_slice("€".as_bytes());
        } else if b % 13 == 0 {
            v.push(b'"');
        } else if b % 17 == 0 {
            v.push(b'\\');
        } else if b % 19 == 0 {
            v.push(0x0a);
        } else {
            v.push(0x20 + b % 95);
        }
    }
    v
}

/// well-known values of 2- and 4-byte fields (AS_TRANS, private and reserved AS numbers, VLAN
/// limits, registered ports, powers of two and their neighbours): a dictionary, as fuzzers use
const DICT: [u32; 24] = [23456, 64512, 65534, 65535, 4094, 4095, 4096, 1023, 1024, 53, 80, 443, 123, 179, 2055, 4739, 9995, 6343, 255, 256, 32767, 32768, 65536, 4200000000];
/// texts that programs print for "no value"
const MAGIC_TEXT: [&str; 10] = ["(null)", "null", "NULL", "N/A", "-", "none", "unknown", "0", "", "?"];

/// value bytes for a field of `n` bytes
pub fn gen_value(dt: &FieldDataType, n: usize, e: &mut Ent, utf8_only: bool) -> Vec<u8> {
    if n == 0 {
        return vec![];
    }
    if (n == 2 || n == 4) && matches!(dt, FieldDataType::UnsignedDataNumber | FieldDataType::Vec | FieldDataType::Unknown) {
        let s = e.next();
        if s < 20 {
            let v = DICT[e.next() as usize % DICT.len()];
            if n == 4 || v <= 0xffff {
                return v.to_be_bytes()[4 - n..].to_vec();
            }
        }
    }
    if *dt == FieldDataType::String {
        let s = e.next();
        if s < 16 {
            // a "no value" text, if it fits: alone (variable-length callers ask for its exact
            // length) or followed by NUL / space filling
            let t = MAGIC_TEXT[e.next() as usize % MAGIC_TEXT.len()].as_bytes();
            if t.len() <= n {
                let fill = if utf8_only || s % 2 == 0 { b' ' } else { 0u8 };
                let mut v = t.to_vec();
                v.resize(n, fill);
                return v;
            }
        }
    }
    if *dt == FieldDataType::Float64 && n == 8 {
        let s = e.next();
        if s < 160 {
            return FLOATS[(s % 16) as usize].to_be_bytes().to_vec();
        }
        if s < 200 {
            // a single-precision value widened to 64 bits (exporters that compute in f32)
            let f = f32::from_bits(u32::from_be_bytes([e.next(), e.next(), e.next(), e.next()]));
            return (f as f64).to_be_bytes().to_vec();
        }
    }
    if *dt == FieldDataType::Ip6Addr && n == 16 {
        let s = e.next();
        if s < 48 {
            // address forms that text renderings treat specially
            let (a, b, c, d) = (e.next(), e.next(), e.next(), e.next());
            return match s % 6 {
                0 => [&[0u8; 10][..], &[0xff, 0xff, a, b, c, d]].concat(), // IPv4-mapped
                1 => [&[0u8; 12][..], &[a, b, c, d]].concat(),             // IPv4-compatible
                2 => [&[0u8; 15][..], &[1]].concat(),                      // loopback
                3 => [&[0xfe, 0x80][..], &[0u8; 6], &[a, b, c, d, a, b, c, d]].concat(), // link-local
                4 => [&[0x20, 0x01, 0x0d, 0xb8][..], &[0u8; 4], &[a, 0, 0, 0, 0, 0, 0, d]].concat(), // two zero runs
                _ => [&[0, 0x64, 0xff, 0x9b][..], &[0u8; 8], &[a, b, c, d]].concat(), // NAT64 prefix
            };
        }
    }
    if *dt == FieldDataType::String && utf8_only {
        return utf8_fill(n, e);
    }
    let style = e.next() % 16;
    match style {
        0 => vec![0; n],
        1 => vec![0xff; n],
        2 => {
            let mut v = vec![0; n];
            v[0] = 0x80;
            v
        }
        3 => {
            let mut v = vec![0xff; n];
            v[0] = 0x7f;
            v
        }
        4..=7 => {
            let b = e.next();
            (0..n).map(|i| b.wrapping_add((i as u8).wrapping_add(1))).collect()
        }
        8 if *dt == FieldDataType::String => utf8_fill(n, e),
        // one-byte fields are mostly small enumerations (direction, end reason, IP version)
        8 | 9 if n == 1 => vec![[0u8, 1, 2, 3, 4, 5, 6, 7, 6, 17, 17, 58][e.next() as usize % 12]],
        _ => (0..n).map(|_| e.next()).collect(),
    }
}

/// Timestamps and counters of real records are not independent of the packet header: flow
/// start / end times lie shortly before (or, with skewed clocks, after) the export time, the
/// switched times around sysUpTime. In one case out of eight a 4- or 8-byte number or duration
/// is therefore derived from a header time word: the word itself (as seconds, milliseconds,
/// microseconds or nanoseconds, as the element's type suggests) plus or minus a small offset.
fn header_relative(dt: &FieldDataType, v: &mut Vec<u8>, e: &mut Ent, hdr_times: [u32; 2]) {
    let n = v.len();
    if n != 4 && n != 8 {
        return;
    }
    let scale: u64 = match dt {
        FieldDataType::UnsignedDataNumber | FieldDataType::DurationSeconds => 1,
        FieldDataType::DurationMillis => 1_000,
        FieldDataType::DurationMicros => 1_000_000,
        FieldDataType::DurationNanos => 1_000_000_000,
        _ => return,
    };
    let s = e.next();
    if s >= 32 {
        return;
    }
    let base = hdr_times[(s & 1) as usize] as u64;
    // offsets of -3 .. +8 quarter-units: from "three quarters of a unit earlier" to "two units later"
    let off = (e.next() % 12) as i64 - 3;
    let val: u64 = if n == 4 {
        // a 4-byte field cannot hold seconds * 1000: the header word itself is the base
        // (sysUpTime is in milliseconds already), offsets in units of 25
        (base as i64 + off * if scale == 1 { 1 } else { 25 }) as u64 & 0xffff_ffff
    } else {
        (base.wrapping_mul(scale) as i64).wrapping_add(off * (scale as i64 / 4).max(1)) as u64
    };
    let b = val.to_be_bytes();
    v.copy_from_slice(&b[8 - n..]);
}

fn varlen_len(e: &mut Ent) -> usize {
    let b = e.next() as usize;
    match b {
        0..=95 => b % 8,
        96..=159 => 8 + b % 24,
        160..=209 => 32 + b % 64,
        210..=224 => 254,
        225..=234 => 255,
        235..=242 => 256,
        _ => 300 + b,
    }
}

// ---------------------------------------------------------------------------------------
// builder
// ---------------------------------------------------------------------------------------

pub struct Built {
    pub calls: Vec<Call>,
    /// number of data records written (self-check against the reference decoder)
    pub data_records: usize,
    /// template table at the end (self-check)
    pub cache: Cache,
}

fn pick<'a, T>(v: &'a [T], i: u8) -> &'a T {
    &v[(i as usize * v.len()) >> 8]
}

const SET_BODY_BUDGET: usize = 6000;
const PKT_BUDGET: usize = 40000;
/// all sets of one packet stay below this, whatever the budgets (65,535 minus headers)
const HARD_SETS_LIMIT: usize = 65000;

struct SetOut {
    bytes: Vec<u8>,
    n_sets: usize,
    n_records: usize,
    n_data_records: usize,
}

fn build_sets(
    proto: Proto,
    pool: &Pool,
    sets: &[SetPlan],
    table: &mut BTreeMap<u16, Def>,
    o: &BuildOpts,
    hdr_times: [u32; 2],
) -> SetOut {
    let defs = match proto {
        Proto::V9 => &pool.v9,
        Proto::Ipfix => &pool.ipfix,
    };
    let mut out = SetOut {
        bytes: vec![],
        n_sets: 0,
        n_records: 0,
        n_data_records: 0,
    };
    let emit_tpl_run =
        |out: &mut SetOut, run: &[(u16, Def)], pad: usize, table: &mut BTreeMap<u16, Def>| {
            if run.is_empty() {
                return;
            }
            let kind = run[0].1.kind;
            let split = proto == Proto::Ipfix && !o.multi_tpl_ipfix;
            let groups: Vec<&[(u16, Def)]> = if split {
                run.chunks(1).collect()
            } else {
                vec![run]
            };
            for g in groups {
                let mut w = W::default();
                for (id, d) in g {
                    enc_template_record(&mut w, proto, *id, d);
                }
                let mut sw = W::default();
                enc_set(&mut sw, template_set_id(proto, kind), &w.0, pad);
                if out.bytes.len() + sw.0.len() > HARD_SETS_LIMIT {
                    // would not fit into the datagram any more: not sent, not learned
                    continue;
                }
                for (id, d) in g {
                    table.insert(*id, d.clone());
                    out.n_records += 1;
                }
                out.bytes.extend_from_slice(&sw.0);
                out.n_sets += 1;
            }
        };
    let withheld = |idx: usize| -> bool {
        match o.withhold {
            Some((p, sel)) => p == proto && (sel as usize * pool.ids.len()) >> 8 == idx,
            None => false,
        }
    };
    for sp in sets {
        if out.bytes.len() > o.pkt_budget {
            break;
        }
        match sp {
            SetPlan::Tpl(recs, pad) => {
                let mut run: Vec<(u16, Def)> = vec![];
                for (ii, di) in recs {
                    let idx = (*ii as usize * pool.ids.len()) >> 8;
                    if withheld(idx) {
                        continue;
                    }
                    let id = pool.ids[idx];
                    let d = pick(&defs[idx], *di).clone();
                    if let Some(last) = run.last() {
                        if last.1.kind != d.kind {
                            emit_tpl_run(&mut out, &run, 0, table);
                            run.clear();
                        }
                    }
                    // the same id twice in one set is legal (the later record wins): kept for
                    // V9; for IPFIX (whose multi-record template sets are a listed finding
                    // anyway) only the later one is sent
                    if proto != Proto::V9 {
                        run.retain(|(i, _)| *i != id);
                    }
                    run.push((id, d));
                }
                emit_tpl_run(&mut out, &run, (*pad % 4) as usize, table);
            }
            SetPlan::Data(ii, recs, pad) => {
                let idx = (*ii as usize * pool.ids.len()) >> 8;
                let id = pool.ids[idx];
                let wh = withheld(idx);
                if !wh && !table.contains_key(&id) {
                    if !o.auto_define {
                        // data for an unknown id: opaque body from the entropy
                        let body: Vec<u8> = recs.iter().flatten().cloned().collect();
                        let mut sw = W::default();
                        enc_set(&mut sw, id, &body, 0);
                        out.bytes.extend_from_slice(&sw.0);
                        out.n_sets += 1;
                        out.n_records += 1;
                        continue;
                    }
                    let d = defs[idx][0].clone();
                    emit_tpl_run(&mut out, &[(id, d)], 0, table);
                    if !table.contains_key(&id) {
                        continue;
                    }
                }
                let def = if wh { defs[idx][0].clone() } else { table.get(&id).unwrap().clone() };
                let min = def.min_record_len();
                if min == 0 {
                    continue;
                }
                let mut body = W::default();
                let mut n = 0usize;
                let mut last_len = 0usize;
                let mut prev_rec: Option<Vec<u8>> = None;
                let max_recs = if proto == Proto::V9 && def.kind == Kind::Options && !o.multi_optdata_v9 {
                    1
                } else {
                    usize::MAX
                };
                for ent in recs.iter().take(max_recs) {
                    if body.0.len() > o.set_budget {
                        break;
                    }
                    let mut e = Ent::new(ent);
                    let mut rec = W::default();
                    for (fi, f) in def.fields.iter().enumerate() {
                        let dt = if f.ent.is_some() {
                            FieldDataType::Vec
                        } else if proto == Proto::V9 && def.kind == Kind::Options && fi < def.scope_n as usize {
                            FieldDataType::Vec
                        } else {
                            dtype(proto, f)
                        };
                        if f.len == VARLEN {
                            let mut l = varlen_len(&mut e);
                            if dt == FieldDataType::String && l % 5 == 1 {
                                // the length of one of the "no value" texts
                                l = [6usize, 4, 3, 1, 7][l % 5];
                            }
                            let long = e.next() % 4 == 0;
                            let v = gen_value(&dt, l, &mut e, o.utf8_only);
                            enc_varlen(&mut rec, &v, long);
                        } else {
                            let mut v = gen_value(&dt, f.len as usize, &mut e, o.utf8_only);
                            header_relative(&dt, &mut v, &mut e, hdr_times);
                            if o.proto_named && dt == FieldDataType::ProtocolType && v.len() == 1 && (145..=254).contains(&v[0]) {
                                v[0] %= 145;
                            }
                            rec.bytes(&v);
                        }
                    }
                    // a record equal to its predecessor (a retransmitted or unchanged flow), one
                    // time in eight - an exact copy, so every constraint the predecessor met
                    // (length prefixes, UTF-8, named protocol numbers) still holds
                    if let Some(p) = &prev_rec {
                        let r = e.next();
                        if r < 32 {
                            rec.0 = p.clone();
                        } else if r < 56 && def.fields.iter().all(|f| f.len != VARLEN) && p.len() == rec.0.len() {
                            // ... or a record that continues its predecessor: a copy in which
                            // one field takes the value the predecessor had in ANOTHER field of
                            // the same type and width (this flow starts where the last one
                            // ended, this source is the last destination)
                            let mut offs = vec![];
                            let mut at = 0usize;
                            for (fi, f) in def.fields.iter().enumerate() {
                                let dt = if f.ent.is_some() || (proto == Proto::V9 && def.kind == Kind::Options && fi < def.scope_n as usize) {
                                    FieldDataType::Vec
                                } else {
                                    dtype(proto, f)
                                };
                                offs.push((at, f.len as usize, dt));
                                at += f.len as usize;
                            }
                            let i = e.next() as usize % offs.len();
                            let (oi, wi, ti) = &offs[i];
                            let ok_type = !matches!(ti, FieldDataType::String | FieldDataType::ProtocolType);
                            if let Some((oj, _, _)) = offs.iter().enumerate().find(|(j, (_, w, t))| *j != i && w == wi && t == ti).map(|(_, x)| x) {
                                if ok_type && *wi > 0 {
                                    let mut c = p.clone();
                                    let src: Vec<u8> = p[*oj..*oj + *wi].to_vec();
                                    c[*oi..*oi + *wi].copy_from_slice(&src);
                                    // ... and the other field moves on a little (start = the
                                    // predecessor's end, end = that end + a bit)
                                    if matches!(ti, FieldDataType::UnsignedDataNumber | FieldDataType::DurationSeconds | FieldDataType::DurationMillis | FieldDataType::DurationMicros | FieldDataType::DurationNanos) && *wi <= 8 {
                                        let mut x = src.iter().fold(0u64, |a, b| a << 8 | u64::from(*b));
                                        x = x.wrapping_add(1 + u64::from(e.next() % 64));
                                        if *wi < 8 {
                                            x &= (1u64 << (8 * *wi)) - 1;
                                        }
                                        c[*oj..*oj + *wi].copy_from_slice(&x.to_be_bytes()[8 - *wi..]);
                                    }
                                    rec.0 = c;
                                }
                            }
                        }
                    }
                    if o.varlen_monotone && rec.0.len() < last_len {
                        continue;
                    }
                    if out.bytes.len() + body.0.len() + rec.0.len() + 8 > HARD_SETS_LIMIT {
                        break;
                    }
                    last_len = rec.0.len();
                    body.bytes(&rec.0);
                    prev_rec = Some(rec.0.clone());
                    n += 1;
                }
                if n == 0 {
                    // RFC 3954 / RFC 7011: a data set consists of one or more records
                    continue;
                }
                // padding strictly shorter than the shortest possible record
                // (IPFIX sets may be aligned to 8 octets, RFC 7011 3.3.2)
                let pad = (*pad as usize % if proto == Proto::Ipfix { 8 } else { 4 }).min(min - 1);
                let mut sw = W::default();
                enc_set(&mut sw, id, &body.0, pad);
                out.bytes.extend_from_slice(&sw.0);
                out.n_sets += 1;
                out.n_records += n;
                if !wh {
                    out.n_data_records += n;
                }
            }
        }
    }
    out
}

/// Header "sessions". Independent random header words never produce what real exporters
/// send: one source id / observation domain for a whole stream and sequence numbers that
/// move in small steps (with the occasional late, duplicated or skipped packet, and the
/// wrap-around at u32::MAX). In two plans out of three - decided by the first V9/IPFIX
/// header of the plan - the sequence number and source id words of all V9 and IPFIX packets
/// are rewritten that way; the plan's own words only steer the steps.
struct Session {
    mode: u32,
    counter: u32,
    source: u32,
    started: bool,
}
impl Session {
    fn next(&mut self, first_word: u32, seq_word: u32, src_word: u32) -> (u32, u32) {
        if !self.started {
            self.started = true;
            self.mode = first_word % 3;
            self.counter = if self.mode == 2 { u32::MAX - seq_word % 8 } else { seq_word };
            self.source = src_word;
            return (if self.mode == 0 { seq_word } else { self.counter }, src_word);
        }
        if self.mode == 0 {
            return (seq_word, src_word);
        }
        let seq = match seq_word % 8 {
            0 => self.counter,                                           // duplicate number
            1 => self.counter.wrapping_sub(1 + (seq_word >> 3) % 4),     // a late packet
            2 => {
                self.counter = self.counter.wrapping_add(2 + (seq_word >> 3) % 60); // a gap
                self.counter
            }
            _ => {
                self.counter = self.counter.wrapping_add(1);
                self.counter
            }
        };
        (seq, if src_word % 4 == 0 { self.source ^ 1 } else { self.source })
    }
}

pub fn build(plan: &StreamPlan, o: &BuildOpts) -> Built {
    let mut cache = Cache::default();
    let mut calls = vec![];
    let mut data_records = 0usize;
    let mut session = Session { mode: 0, counter: 0, source: 0, started: false };
    let mut fixed_seq: Option<(u32, u32)> = None;
    for cp in &plan.calls {
        let mut packets = vec![];
        let single = cp.len() == 1;
        for pk in cp {
            match pk {
                PktPlan::Fixed { v7, hdr, recs } => {
                    let (ver, rl) = if *v7 { (7u16, 52usize) } else { (5u16, 48usize) };
                    let mut h = hdr.clone();
                    h.resize(20, 0);
                    // flow_sequence (bytes 16..20 of the packet = 12..16 here) continues from
                    // packet to packet - with the occasional gap or repeat - in two plans out
                    // of three (decided by the first V5/V7 header of the plan)
                    let word = u32::from_be_bytes([h[12], h[13], h[14], h[15]]);
                    match fixed_seq {
                        None => fixed_seq = Some((word % 3, word.wrapping_add(recs.len() as u32))),
                        Some((0, _)) => {}
                        Some((m, next)) => {
                            let seq = match word % 8 {
                                0 => next.wrapping_add(1 + word / 8 % 50), // records were lost
                                1 => next.wrapping_sub(recs.len() as u32),  // the previous packet again
                                _ => next,
                            };
                            h[12..16].copy_from_slice(&seq.to_be_bytes());
                            fixed_seq = Some((m, seq.wrapping_add(recs.len() as u32)));
                        }
                    }
                    let rs: Vec<Vec<u8>> = recs
                        .iter()
                        .map(|r| {
                            let mut r = r.clone();
                            r.resize(rl, 0);
                            r
                        })
                        .collect();
                    packets.push(enc_fixed(ver, rs.len() as u16, &h, &rs));
                }
                PktPlan::V9 { hdr, sets } => {
                    // (sysUpTime in ms, unix seconds)
                    let so = build_sets(Proto::V9, &plan.pool, sets, &mut cache.v9, o, [hdr[0], hdr[1]]);
                    let count = if single && !o.count_by_flowsets {
                        so.n_records.max(so.n_sets)
                    } else {
                        so.n_sets
                    };
                    let mut w = W::default();
                    let (seq, src) = session.next(hdr[0], hdr[2], hdr[3]);
                    let hdr = &[hdr[0], hdr[1], seq, src];
                    enc_v9_header(&mut w, count as u16, hdr);
                    w.bytes(&so.bytes);
                    data_records += so.n_data_records;
                    packets.push(w.0);
                }
                PktPlan::Ipfix { hdr, sets } => {
                    // (export time in seconds)
                    let so = build_sets(Proto::Ipfix, &plan.pool, sets, &mut cache.ipfix, o, [hdr[0], hdr[0]]);
                    let mut w = W::default();
                    let (seq, src) = session.next(hdr[0], hdr[1], hdr[2]);
                    let hdr = &[hdr[0], seq, src];
                    enc_ipfix_header(&mut w, (16 + so.bytes.len()) as u16, hdr);
                    w.bytes(&so.bytes);
                    data_records += so.n_data_records;
                    packets.push(w.0);
                }
            }
        }
        calls.push(Call { parser: 0, packets });
    }
    Built {
        calls,
        data_records,
        cache,
    }
}

// ---------------------------------------------------------------------------------------
// strategies: templates
// ---------------------------------------------------------------------------------------

const V9_KNOWN: &[u16] = &[
    1, 2, 3, 4, 4, 5, 6, 7, 7, 8, 8, 10, 11, 11, 12, 12, 14, 15, 16, 17, 21, 21, 22, 22, 23, 27, 27, 28, 28, 29,
    31, 32, 34, 40, 46, 47, 48, 56, 56, 57, 58, 60, 61, 62, 64, 70, 80, 80, 81, 82, 90, 94, 94, 95, 96, 152,
    153, 225, 227, 281, 282,
];
const V9_UNKNOWN: &[u16] = &[43, 51, 65, 69, 97, 105, 150, 200, 283, 300, 1000, 40000, 65535];
const IPFIX_KNOWN: &[u16] = &[
    1, 2, 4, 4, 5, 6, 7, 7, 8, 8, 10, 11, 11, 12, 12, 14, 21, 21, 22, 22, 27, 27, 28, 28, 56, 56, 57, 80, 80, 81, 82,
    83, 94, 96, 150, 151, 152, 153, 154, 155, 156, 157, 160, 210, 211, 212, 258, 311, 320, 365, 434, 434, 85, 86,
];
const IPFIX_UNKNOWN: &[u16] = &[503, 600, 1000, 20000, 32767];
const ENTERPRISES: &[u32] = &[9, 29305, 0, 0xffff_ffff, 6871, 1];

fn width_for(dt: &FieldDataType, w: u8) -> u16 {
    let lw = legal_widths(dt);
    if lw.is_empty() {
        // string / octet array / unknown: any fixed width, small-biased
        match w {
            0..=127 => 1 + (w % 8) as u16,
            128..=229 => 1 + (w % 32) as u16,
            _ => 33 + (w % 32) as u16,
        }
    } else {
        lw[(w as usize * lw.len()) >> 8]
    }
}

fn is_bytes_like(dt: &FieldDataType) -> bool {
    matches!(
        dt,
        FieldDataType::String | FieldDataType::Vec | FieldDataType::Unknown
    )
}

/// (selector, index, width selector, flags) -> conformant V9 field
fn v9_field(sel: u8, idx: u8, w: u8) -> FieldSpec {
    let ie = if sel < 130 {
        *pick(V9_KNOWN, idx)
    } else if sel < 215 {
        // any number of the library's table range (typed or not)
        1 + (((idx as u16) << 8 | w as u16) % 300)
    } else {
        *pick(V9_UNKNOWN, idx)
    };
    let dt = crate::refdec::v9_dtype(ie);
    FieldSpec {
        ie,
        len: width_for(&dt, w),
        ent: None,
    }
}

fn ipfix_field(sel: u8, idx: u8, w: u8, flags: u8) -> FieldSpec {
    if sel >= 225 {
        // enterprise-specific element
        let len = if flags & 3 == 0 {
            VARLEN
        } else {
            1 + (w % 24) as u16
        };
        return FieldSpec {
            ie: ((idx as u16) << 7 | w as u16) & 0x7fff,
            len,
            ent: Some(*pick(ENTERPRISES, flags)),
        };
    }
    let ie = if sel < 120 {
        *pick(IPFIX_KNOWN, idx)
    } else if sel < 195 {
        // any element of the library's table range (typed or not)
        1 + (((idx as u16) << 8 | flags as u16) % 520)
    } else {
        *pick(IPFIX_UNKNOWN, idx)
    };
    let dt = crate::refdec::ipfix_dtype(ie);
    let len = if is_bytes_like(&dt) && flags % 3 == 0 {
        VARLEN
    } else if is_bytes_like(&dt) && flags % 16 == 1 {
        0
    } else {
        width_for(&dt, w)
    };
    FieldSpec { ie, len, ent: None }
}

fn fix_zero_len(fields: &mut Vec<FieldSpec>) {
    // at most two zero-length fields and at least one field of non-zero length
    let mut z = 0;
    for f in fields.iter_mut() {
        if f.len == 0 {
            z += 1;
            if z > 2 {
                f.len = 4;
            }
        }
    }
    if fields.iter().all(|f| f.len == 0) {
        fields[0].len = 2;
    }
}

pub fn v9_def(options: bool, max_fields: usize) -> BoxedStrategy<Def> {
    let f = (any::<u8>(), any::<u8>(), any::<u8>()).prop_map(|(s, i, w)| v9_field(s, i, w));
    if !options {
        vec(f, 1..=max_fields)
            .prop_map(|fields| Def {
                kind: Kind::Plain,
                scope_n: 0,
                fields,
            })
            .boxed()
    } else {
        let scope = (1u16..=5, 1u16..=4).prop_map(|(t, l)| FieldSpec {
            ie: t,
            len: l,
            ent: None,
        });
        // 1..3 scope fields; now and then an options template without option fields, or
        // (RFC 3954 does not forbid it) without scope fields
        (prop_oneof![12 => vec(scope.clone(), 1..=3), 1 => vec(scope, 0..=0)], prop_oneof![9 => vec(f.clone(), 1..=max_fields.min(5)), 1 => vec(f, 0..=0)])
            .prop_map(|(s, opts)| {
                let n = s.len() as u16;
                let mut fields = s;
                fields.extend(opts);
                if fields.is_empty() {
                    fields.push(FieldSpec { ie: 1, len: 4, ent: None });
                }
                Def {
                    kind: Kind::Options,
                    scope_n: n,
                    fields,
                }
            })
            .boxed()
    }
}

pub fn ipfix_def(options: bool, max_fields: usize) -> BoxedStrategy<Def> {
    let f = (any::<u8>(), any::<u8>(), any::<u8>(), any::<u8>())
        .prop_map(|(s, i, w, fl)| ipfix_field(s, i, w, fl));
    (vec(f, 1..=max_fields), any::<u8>())
        .prop_map(move |(mut fields, sc)| {
            fix_zero_len(&mut fields);
            let n = fields.len();
            Def {
                kind: if options { Kind::Options } else { Kind::Plain },
                scope_n: if options {
                    1 + (sc as usize % n.min(2)) as u16
                } else {
                    0
                },
                fields,
            }
        })
        .boxed()
}

/// a variation of `base`; `other` supplies fields to append
fn vary(proto: Proto, base: &Def, other: &Def, how: u8, pos: u8, w: u8) -> Def {
    let mut d = base.clone();
    let lo = if d.kind == Kind::Options { d.scope_n as usize } else { 0 };
    let n = d.fields.len();
    match how {
        0 => {
            // same element sequence, one width changed
            if n > lo {
                let i = lo + (pos as usize * (n - lo) >> 8);
                let f = &mut d.fields[i];
                if f.len != VARLEN && f.len != 0 {
                    let dt = if f.ent.is_some() { FieldDataType::Vec } else { dtype(proto, f) };
                    let mut nw = width_for(&dt, w);
                    if nw == f.len {
                        nw = width_for(&dt, w.wrapping_add(97));
                    }
                    f.len = nw;
                }
            }
        }
        1 => {
            // strict prefix: trailing fields dropped
            if n > lo + 1 {
                let keep = lo + 1 + (pos as usize * (n - lo - 1) >> 8);
                d.fields.truncate(keep.max(1));
            }
        }
        2 => {
            // extension: fields appended
            let extra: Vec<FieldSpec> = other.fields.iter().skip(other.scope_n as usize).take(1 + (pos as usize % 3)).cloned().collect();
            d.fields.extend(extra);
        }
        3 => {
            // two fields swapped
            if n > lo + 1 {
                let i = lo + (pos as usize * (n - lo - 1) >> 8);
                d.fields.swap(i, i + 1);
            }
        }
        _ => {
            // same widths, one element number changed to another of the same data type family
            if n > lo {
                let i = lo + (pos as usize * (n - lo) >> 8);
                if let Some(o) = other.fields.get(other.scope_n as usize) {
                    if d.fields[i].len != VARLEN && d.fields[i].ent.is_none() && o.ent.is_none() {
                        let dt = dtype(proto, o);
                        let lw = legal_widths(&dt);
                        if lw.is_empty() || lw.contains(&d.fields[i].len) {
                            d.fields[i].ie = o.ie;
                        }
                    }
                }
            }
        }
    }
    if proto == Proto::Ipfix {
        fix_zero_len(&mut d.fields);
    }
    d
}

/// template pool: `n_ids` ids shared by both protocols, 1..=3 alternative definitions each.
/// `options_mask` decides per id whether it is an options template (kind is fixed per id
/// unless `mixed_kinds`).
pub fn pool(n_ids: std::ops::RangeInclusive<usize>, max_fields: usize, mixed_kinds: bool) -> BoxedStrategy<Pool> {
    // no prop_flat_map anywhere in the generators: proptest's pass-through RNG (used by the
    // structure-aware fuzz target) halves the remaining input at every flat_map
    let max_n = *n_ids.end();
    let per_id = move |v9: bool| {
        let plain = move || if v9 { v9_def(false, max_fields) } else { ipfix_def(false, max_fields) };
        let opts = move || if v9 { v9_def(true, max_fields) } else { ipfix_def(true, max_fields) };
        (
            any::<u8>(),
            1usize..=3,
            [plain(), plain(), plain()],
            [opts(), opts(), opts()],
            [(any::<u8>(), any::<u8>(), any::<u8>()), (any::<u8>(), any::<u8>(), any::<u8>()), (any::<u8>(), any::<u8>(), any::<u8>())],
        )
            .prop_map(move |(k, alts, p, o, derive)| {
                let opt = k % 4 == 0;
                let mut defs: Vec<Def> = (0..alts)
                    .map(|j| {
                        // mixed: the kind of every alternative is drawn independently, so that
                        // options -> options and plain -> plain redefinitions occur as well
                        // as changes of kind
                        let is_opt = if mixed_kinds { (k >> (2 * j)) & 3 == 0 } else { opt };
                        if is_opt {
                            o[j].clone()
                        } else {
                            p[j].clone()
                        }
                    })
                    .collect();
                // later alternatives are often *variations* of the first one (what a
                // re-configured exporter sends): one field's width changed, trailing
                // fields dropped, fields appended, two fields swapped - so that
                // redefinitions differ from the cached definition in one aspect only
                let proto = if v9 { Proto::V9 } else { Proto::Ipfix };
                for j in 1..defs.len() {
                    let (d, pos, w) = derive[j];
                    if d < 150 && defs[0].kind == defs[j].kind {
                        let v = vary(proto, &defs[0], &defs[j], d % 5, pos, w);
                        defs[j] = v;
                    }
                }
                defs
            })
    };
    (
        proptest::sample::subsequence(vec![256u16, 257, 258, 259, 300, 1024, 4096, 65535, 511, 260, 4352, 33024], n_ids),
        vec(per_id(true), max_n..=max_n),
        vec(per_id(false), max_n..=max_n),
    )
        .prop_map(|(ids, mut v9, mut ipfix)| {
            v9.truncate(ids.len());
            ipfix.truncate(ids.len());
            Pool { ids, v9, ipfix }
        })
        .boxed()
}

// ---------------------------------------------------------------------------------------
// strategies: sets, packets, streams
// ---------------------------------------------------------------------------------------

pub fn entropy() -> BoxedStrategy<Vec<u8>> {
    prop_oneof![
        4 => vec(any::<u8>(), 0..12),
        1 => vec(any::<u8>(), 12..40),
    ]
    .boxed()
}

pub fn set_plan(max_recs: usize) -> BoxedStrategy<SetPlan> {
    prop_oneof![
        3 => (vec((any::<u8>(), any::<u8>()), 1..=4), any::<u8>()).prop_map(|(r, p)| SetPlan::Tpl(r, p)),
        6 => (any::<u8>(), vec(entropy(), 0..=max_recs), any::<u8>())
            .prop_map(|(i, r, p)| SetPlan::Data(i, r, p)),
        1 => (any::<u8>(), vec(entropy(), max_recs..=max_recs * 6), any::<u8>())
            .prop_map(|(i, r, p)| SetPlan::Data(i, r, p)),
    ]
    .boxed()
}

pub fn fixed_plan(max_recs: usize) -> BoxedStrategy<PktPlan> {
    // field-aware records: every field of the V5/V7 layout independently zero, all ones,
    // one, small or random - so that conjunctions such as "protocol 1 and destination port
    // 0" or "next hop 0.0.0.0 and a non-zero output interface" occur regularly
    const WIDTHS: [usize; 21] = [4, 4, 4, 2, 2, 4, 4, 4, 4, 2, 2, 1, 1, 1, 1, 2, 2, 1, 1, 2, 4];
    let aware = vec((any::<u8>(), any::<u32>()), 21).prop_map(|fs| {
        let mut r = Vec::with_capacity(52);
        for ((sel, val), w) in fs.iter().zip(WIDTHS.iter()) {
            let v: u32 = match sel % 8 {
                0..=2 => 0,
                3 => u32::MAX,
                4 => 1,
                5 => val % 256,
                _ => *val,
            };
            r.extend_from_slice(&v.to_be_bytes()[4 - w..]);
        }
        // one record in six has two equal addresses / ports / AS numbers / interfaces
        // (src = dst, next hop = destination, router = next hop ...)
        const PAIRS: [(usize, usize, usize); 8] = [(0, 4, 4), (4, 8, 4), (0, 8, 4), (8, 48, 4), (32, 34, 2), (40, 42, 2), (12, 14, 2), (24, 28, 4)];
        let (sel, pick) = (fs[0].0, fs[1].0);
        if sel % 6 == 5 {
            let (a, b, w) = PAIRS[pick as usize % PAIRS.len()];
            let src: Vec<u8> = r[a..a + w].to_vec();
            r[b..b + w].copy_from_slice(&src);
        }
        r
    });
    let rec = prop_oneof![
        3 => aware,
        3 => vec(any::<u8>(), 52),
        1 => any::<u8>().prop_map(|b| (0..52u8).map(|i| b.wrapping_add(i.wrapping_mul(3).wrapping_add(1))).collect::<Vec<u8>>()),
        1 => prop_oneof![Just(vec![0u8; 52]), Just(vec![0xffu8; 52]), Just(vec![0x80u8; 52])],
    ];
    // one packet in twelve carries a record count around the Cisco maximum (30 / 28)
    let recs = prop_oneof![
        11 => vec(rec.clone(), 0..=max_recs),
        1 => vec(rec, 24..=34),
    ];
    (any::<bool>(), vec(any::<u8>(), 20), recs)
        .prop_map(|(v7, hdr, recs)| PktPlan::Fixed { v7, hdr, recs })
        .boxed()
}

fn hdr_word() -> BoxedStrategy<u32> {
    prop_oneof![
        3 => any::<u32>(),
        1 => prop_oneof![Just(0u32), Just(u32::MAX), Just(0x8000_0000), Just(0x0102_0304)],
    ]
    .boxed()
}

pub fn v9_plan(max_sets: usize, max_recs: usize) -> BoxedStrategy<PktPlan> {
    (
        [hdr_word(), hdr_word(), hdr_word(), hdr_word()],
        vec(set_plan(max_recs), 1..=max_sets),
    )
        .prop_map(|(hdr, sets)| PktPlan::V9 { hdr, sets })
        .boxed()
}
pub fn ipfix_plan(max_sets: usize, max_recs: usize) -> BoxedStrategy<PktPlan> {
    (
        [hdr_word(), hdr_word(), hdr_word()],
        vec(set_plan(max_recs), 1..=max_sets),
    )
        .prop_map(|(hdr, sets)| PktPlan::Ipfix { hdr, sets })
        .boxed()
}

#[derive(Clone, Copy, Debug)]
pub struct Mix {
    pub fixed: u32,
    pub v9: u32,
    pub ipfix: u32,
}

/// packets that are nothing but their header: an IPFIX message without sets (16 bytes), a V9
/// packet without flowsets (20 bytes), a V5/V7 packet without records (24 bytes)
pub fn minimal_plan(mix: Mix) -> BoxedStrategy<PktPlan> {
    let mut alts: Vec<(u32, BoxedStrategy<PktPlan>)> = vec![];
    if mix.fixed > 0 {
        alts.push((mix.fixed, (any::<bool>(), vec(any::<u8>(), 20)).prop_map(|(v7, hdr)| PktPlan::Fixed { v7, hdr, recs: vec![] }).boxed()));
    }
    if mix.v9 > 0 {
        alts.push((mix.v9, [hdr_word(), hdr_word(), hdr_word(), hdr_word()].prop_map(|hdr| PktPlan::V9 { hdr, sets: vec![] }).boxed()));
    }
    if mix.ipfix > 0 {
        alts.push((mix.ipfix, [hdr_word(), hdr_word(), hdr_word()].prop_map(|hdr| PktPlan::Ipfix { hdr, sets: vec![] }).boxed()));
    }
    proptest::strategy::Union::new_weighted(alts).boxed()
}

/// mostly header-only packets with a few ordinary ones in between
pub fn pkt_plan_minimal_heavy(mix: Mix, max_sets: usize, max_recs: usize) -> BoxedStrategy<PktPlan> {
    prop_oneof![
        6 => minimal_plan(mix),
        1 => pkt_plan(mix, max_sets, max_recs),
    ]
    .boxed()
}

pub fn pkt_plan(mix: Mix, max_sets: usize, max_recs: usize) -> BoxedStrategy<PktPlan> {
    let mut alts: Vec<(u32, BoxedStrategy<PktPlan>)> = vec![];
    // one packet in sixteen is header-only
    alts.push(((mix.fixed + mix.v9 + mix.ipfix).div_ceil(15).max(1), minimal_plan(mix)));
    if mix.fixed > 0 {
        alts.push((mix.fixed, fixed_plan(3)));
    }
    if mix.v9 > 0 {
        alts.push((mix.v9, v9_plan(max_sets, max_recs)));
    }
    if mix.ipfix > 0 {
        alts.push((mix.ipfix, ipfix_plan(max_sets, max_recs)));
    }
    proptest::strategy::Union::new_weighted(alts).boxed()
}

#[derive(Clone, Copy, Debug)]
pub struct StreamCfg {
    pub mix: Mix,
    pub ids: (usize, usize),
    pub max_fields: usize,
    pub calls: (usize, usize),
    pub pkts_per_call: (usize, usize),
    pub max_sets: usize,
    pub max_recs: usize,
    pub mixed_kinds: bool,
}

impl StreamCfg {
    /// datagram-sized shapes (used with `BuildOpts::big`): k = 0 thousands of records per set,
    /// 1 thousands of fields per template, 2 hundreds of sets per packet
    pub const fn datagram_sized(mix: Mix, k: usize) -> StreamCfg {
        match k {
            0 => StreamCfg { mix, ids: (1, 2), max_fields: 5, calls: (1, 2), pkts_per_call: (1, 1), max_sets: 2, max_recs: 3000, mixed_kinds: false },
            1 => StreamCfg { mix, ids: (1, 2), max_fields: 4000, calls: (1, 2), pkts_per_call: (1, 1), max_sets: 3, max_recs: 3, mixed_kinds: false },
            _ => StreamCfg { mix, ids: (1, 3), max_fields: 3, calls: (1, 2), pkts_per_call: (1, 1), max_sets: 1500, max_recs: 2, mixed_kinds: false },
        }
    }
    pub const fn small(mix: Mix) -> StreamCfg {
        StreamCfg {
            mix,
            ids: (2, 4),
            max_fields: 8,
            calls: (1, 4),
            pkts_per_call: (1, 3),
            max_sets: 4,
            max_recs: 5,
            mixed_kinds: false,
        }
    }
}

pub fn stream(cfg: StreamCfg) -> BoxedStrategy<StreamPlan> {
    let pk = pkt_plan(cfg.mix, cfg.max_sets, cfg.max_recs);
    let call = prop_oneof![
        3 => vec(pk.clone(), 1..=1),
        2 => vec(pk, cfg.pkts_per_call.0..=cfg.pkts_per_call.1),
    ];
    (
        pool(cfg.ids.0..=cfg.ids.1, cfg.max_fields, cfg.mixed_kinds),
        vec(call, cfg.calls.0..=cfg.calls.1),
    )
        .prop_map(|(pool, calls)| StreamPlan { pool, calls })
        .boxed()
}

// ---------------------------------------------------------------------------------------
// allowed-version sets
// ---------------------------------------------------------------------------------------

pub fn allowed_set() -> BoxedStrategy<Vec<u16>> {
    prop_oneof![
        5 => Just(vec![5u16, 7, 9, 10]),
        3 => (0u8..16, vec(prop_oneof![Just(0u16), Just(1), Just(6), Just(8), Just(11), Just(255), Just(256), Just(0x0900), any::<u16>()], 0..3))
            .prop_map(|(mask, extra)| {
                let mut v: Vec<u16> = [5u16, 7, 9, 10]
                    .iter()
                    .enumerate()
                    .filter(|(i, _)| mask >> i & 1 == 1)
                    .map(|(_, x)| *x)
                    .collect();
                v.extend(extra);
                v.sort();
                v.dedup();
                v
            }),
    ]
    .boxed()
}

// ---------------------------------------------------------------------------------------
// hostile input
// ---------------------------------------------------------------------------------------

const BOUNDARY16: &[u16] = &[
    0, 1, 2, 3, 4, 5, 6, 7, 8, 15, 16, 17, 19, 20, 21, 23, 24, 25, 47, 48, 49, 52, 255, 256, 257, 0x7fff, 0x8000,
    0xfffe, 0xffff,
];

#[derive(Clone, Debug)]
pub enum Mut {
    /// overwrite the u16 at (scaled) position with a boundary value
    Set16(u16, u8),
    /// add a small signed delta to the u16 at position
    Delta16(u16, i8),
    Flip(u16, u8),
    Truncate(u16),
    Insert(u16, Vec<u8>),
    Delete(u16, u8),
    /// overwrite one of the first 4 header/length fields (positions 2, 20/16 + 2, ...)
    Header(u8, u8),
}

pub fn mutation() -> BoxedStrategy<Mut> {
    prop_oneof![
        3 => (any::<u16>(), any::<u8>()).prop_map(|(p, v)| Mut::Set16(p, v)),
        2 => (any::<u16>(), -2i8..=2).prop_map(|(p, d)| Mut::Delta16(p, d)),
        2 => (any::<u16>(), any::<u8>()).prop_map(|(p, v)| Mut::Flip(p, v)),
        2 => any::<u16>().prop_map(Mut::Truncate),
        1 => (any::<u16>(), vec(any::<u8>(), 1..8)).prop_map(|(p, v)| Mut::Insert(p, v)),
        1 => (any::<u16>(), 1u8..16).prop_map(|(p, n)| Mut::Delete(p, n)),
        3 => (any::<u8>(), any::<u8>()).prop_map(|(w, v)| Mut::Header(w, v)),
    ]
    .boxed()
}

fn scale(pos: u16, len: usize) -> usize {
    (pos as usize * len) >> 16
}

pub fn apply_mut(buf: &mut Vec<u8>, m: &Mut) {
    if buf.is_empty() {
        return;
    }
    match m {
        Mut::Set16(p, v) => {
            let i = scale(*p, buf.len().saturating_sub(1)) & !1;
            if i + 2 <= buf.len() {
                let b = pick(BOUNDARY16, *v).to_be_bytes();
                buf[i] = b[0];
                buf[i + 1] = b[1];
            }
        }
        Mut::Delta16(p, d) => {
            let i = scale(*p, buf.len().saturating_sub(1)) & !1;
            if i + 2 <= buf.len() {
                let v = be16(buf, i).wrapping_add(*d as i16 as u16).to_be_bytes();
                buf[i] = v[0];
                buf[i + 1] = v[1];
            }
        }
        Mut::Flip(p, v) => {
            let i = scale(*p, buf.len());
            buf[i] ^= 1 << (v % 8);
        }
        Mut::Truncate(p) => {
            let i = scale(*p, buf.len());
            buf.truncate(i.max(1));
        }
        Mut::Insert(p, v) => {
            let i = scale(*p, buf.len());
            let tail = buf.split_off(i);
            buf.extend_from_slice(v);
            buf.extend_from_slice(&tail);
        }
        Mut::Delete(p, n) => {
            let i = scale(*p, buf.len());
            let e = (i + *n as usize).min(buf.len());
            buf.drain(i..e);
        }
        Mut::Header(which, v) => {
            // count/length of the packet header, or length/count fields of the first set
            let ver = if buf.len() >= 2 { be16(buf, 0) } else { 0 };
            let base = if ver == 9 { 20 } else { 16 };
            let offs = [2usize, base, base + 2, base + 4, base + 6, base + 8];
            let i = offs[*which as usize % offs.len()];
            if i + 2 <= buf.len() {
                let b = pick(BOUNDARY16, *v).to_be_bytes();
                buf[i] = b[0];
                buf[i + 1] = b[1];
            }
        }
    }
}

/// hostile template definition: zero-length fields, zero fields, odd widths, huge widths
pub fn hostile_def(v9: bool) -> BoxedStrategy<Def> {
    let len = prop_oneof![
        4 => Just(0u16),
        6 => 1u16..=8,
        2 => prop_oneof![Just(5u16), Just(6), Just(7), Just(9), Just(16), Just(17), Just(255), Just(0x7fff), Just(0xfffe), Just(0xffff)],
    ];
    let ie = prop_oneof![
        4 => (0usize..64).prop_map(move |i| if v9 { V9_KNOWN[i % V9_KNOWN.len()] } else { IPFIX_KNOWN[i % IPFIX_KNOWN.len()] }),
        1 => any::<u16>().prop_map(|x| x & 0x7fff),
    ];
    let ent = if v9 {
        Just(None).boxed()
    } else {
        prop_oneof![5 => Just(None), 1 => any::<u32>().prop_map(Some)].boxed()
    };
    let field = (ie, len, ent).prop_map(|(ie, len, ent)| FieldSpec { ie, len, ent });
    let fields = prop_oneof![6 => vec(field.clone(), 0..6), 1 => vec(field, 6..40)];
    (fields, any::<u8>(), any::<bool>())
        .prop_map(|(fields, sc, opt)| {
            let n = fields.len() as u16;
            Def {
                kind: if opt { Kind::Options } else { Kind::Plain },
                scope_n: if opt && n > 0 { sc as u16 % (n + 1) } else { 0 },
                fields,
            }
        })
        .boxed()
}

pub fn hostile_pool() -> BoxedStrategy<Pool> {
    let alt = |v9: bool| {
        vec(
            prop_oneof![
                2 => hostile_def(v9),
                1 => if v9 { v9_def(false, 6) } else { ipfix_def(false, 6) },
            ],
            1..=2,
        )
    };
    (
        proptest::sample::subsequence(vec![256u16, 257, 258, 300, 65535, 255, 2, 0, 3, 1], 2..=4),
        vec(alt(true), 4..=4),
        vec(alt(false), 4..=4),
    )
        .prop_map(|(ids, mut v9, mut ipfix)| {
            v9.truncate(ids.len());
            ipfix.truncate(ids.len());
            Pool { ids, v9, ipfix }
        })
        .boxed()
}

#[derive(Clone, Debug)]
pub struct HostilePlan {
    pub stream: StreamPlan,
    pub muts: Vec<(u8, Mut)>,
    pub raws: Vec<(u8, Vec<u8>)>,
    pub allowed: Vec<u16>,
}

fn raw_call() -> BoxedStrategy<Vec<u8>> {
    let ver = prop_oneof![Just(5u16), Just(7), Just(9), Just(10), Just(9), Just(10), any::<u16>()];
    prop_oneof![
        3 => (ver, vec(any::<u8>(), 0..120)).prop_map(|(v, b)| {
            let mut o = v.to_be_bytes().to_vec();
            o.extend(b);
            o
        }),
        1 => vec(any::<u8>(), 0..64),
    ]
    .boxed()
}

pub fn hostile() -> BoxedStrategy<HostilePlan> {
    let mix = Mix {
        fixed: 1,
        v9: 3,
        ipfix: 3,
    };
    let pk = pkt_plan(mix, 4, 4);
    let call = prop_oneof![2 => vec(pk.clone(), 1..=1), 1 => vec(pk, 1..=3)];
    let st = (
        prop_oneof![2 => hostile_pool(), 1 => pool(2..=3, 6, true)],
        vec(call, 1..=4),
    )
        .prop_map(|(pool, calls)| StreamPlan { pool, calls });
    (
        st,
        vec((any::<u8>(), mutation()), 0..4),
        vec((any::<u8>(), raw_call()), 0..3),
        allowed_set(),
    )
        .prop_map(|(stream, muts, raws, allowed)| HostilePlan {
            stream,
            muts,
            raws,
            allowed,
        })
        .boxed()
}

pub const HOSTILE_OPTS: BuildOpts = BuildOpts {
    auto_define: false,
    multi_tpl_ipfix: true,
    multi_optdata_v9: true,
    utf8_only: false,
    varlen_monotone: false,
    count_by_flowsets: false,
    proto_named: false,
    withhold: None,
    set_budget: SET_BODY_BUDGET,
    pkt_budget: PKT_BUDGET,
};

pub fn build_hostile(h: &HostilePlan) -> Case {
    let b = build(&h.stream, &HOSTILE_OPTS);
    // flatten: mutations work on whole buffers
    let mut bufs: Vec<Vec<u8>> = b.calls.iter().map(|c| c.buf()).collect();
    for (ci, m) in &h.muts {
        if bufs.is_empty() {
            break;
        }
        let i = (*ci as usize * bufs.len()) >> 8;
        apply_mut(&mut bufs[i], m);
    }
    for (pos, raw) in &h.raws {
        let i = (*pos as usize * (bufs.len() + 1)) >> 8;
        bufs.insert(i, raw.clone());
    }
    for b in bufs.iter_mut() {
        b.truncate(65535);
    }
    Case {
        allowed: vec![h.allowed.clone()],
        calls: bufs.into_iter().map(Call::one).collect(),
        params: BTreeMap::new(),
    }
}

pub fn hostile_case() -> BoxedStrategy<Case> {
    hostile().prop_map(|h| build_hostile(&h)).boxed()
}

/// conformant stream as a case (one parser, default allowed set)
/// reference decode of every V9/IPFIX packet of a single-parser history (None = some packet
/// is outside the conformant envelope)
fn ref_trace(calls: &[Call]) -> Option<Vec<Option<crate::refdec::RefPkt>>> {
    let mut cache = Cache::default();
    let mut out = vec![];
    for c in calls {
        if c.parser != 0 {
            return None;
        }
        for pk in &c.packets {
            if pk.len() < 2 {
                return None;
            }
            out.push(match be16(pk, 0) {
                9 => Some(crate::refdec::dec_v9(pk, &mut cache).ok()?),
                10 => Some(crate::refdec::dec_ipfix(pk, &mut cache).ok()?),
                _ => None,
            });
        }
    }
    Some(out)
}

/// Retransmission: in one case out of six one packet is delivered again, byte-identically,
/// as a call of its own right after its call or at a later point of the history (exporters
/// re-send templates, networks duplicate datagrams). The copy is kept only if, by the
/// reference decoder, it decodes exactly like its original and changes the decode of no other
/// packet (a copy that re-installs an older definition, or whose data would now be read
/// under a newer one, leaves the envelope the value generators were built for). Returns
/// true when the history was changed.
pub fn with_repeat(calls: &mut Vec<Call>, r: u32) -> bool {
    if r % 6 != 0 || calls.is_empty() {
        return false;
    }
    let ci = ((r >> 4) as usize) % calls.len();
    if calls[ci].packets.is_empty() {
        return false;
    }
    let pi = ((r >> 12) as usize) % calls[ci].packets.len();
    let Some(before) = ref_trace(calls) else { return false };
    let k_orig: usize = calls[..ci].iter().map(|c| c.packets.len()).sum::<usize>() + pi;
    // right after its call (half of the time) or anywhere later
    let cj = if (r >> 3) & 1 == 1 { ci + 1 } else { ci + 1 + ((r >> 20) as usize) % (calls.len() - ci) };
    let k_copy: usize = calls[..cj].iter().map(|c| c.packets.len()).sum();
    let pk = calls[ci].packets[pi].clone();
    calls.insert(cj, Call { parser: calls[ci].parser, packets: vec![pk] });
    let ok = match ref_trace(calls) {
        Some(mut after) => {
            let copy = after.remove(k_copy);
            after == before && copy == before[k_orig]
        }
        None => false,
    };
    if !ok {
        calls.remove(cj);
    }
    ok
}

pub fn conformant_case(cfg: StreamCfg, opts: BuildOpts) -> BoxedStrategy<Case> {
    (stream(cfg), any::<u32>())
        .prop_map(move |(p, rep)| {
            let mut b = build(&p, &opts);
            let mut params = BTreeMap::new();
            if with_repeat(&mut b.calls, rep) {
                params.insert("retransmission".to_string(), 1);
            } else {
                params.insert("built_data_records".to_string(), b.data_records as i64);
            }
            Case {
                allowed: vec![crate::engine::DEFAULT_ALLOWED.to_vec()],
                calls: b.calls,
                params,
            }
        })
        .boxed()
}

/// Rewrite a definition so that every value kind re-exports losslessly (C09/C10 strict
/// mode): durations and MACs become 4-byte counters, signed numbers are 4 bytes wide,
/// variable-length fields get a fixed width.
pub fn make_lossless(proto: Proto, d: &mut Def) {
    for (i, f) in d.fields.iter_mut().enumerate() {
        if proto == Proto::V9 && d.kind == Kind::Options && i < d.scope_n as usize {
            continue;
        }
        if f.len == VARLEN {
            f.len = 5;
        }
        if f.ent.is_some() {
            continue;
        }
        match dtype(proto, f) {
            FieldDataType::DurationSeconds
            | FieldDataType::DurationMillis
            | FieldDataType::DurationMicros
            | FieldDataType::DurationNanos
            | FieldDataType::MacAddr => {
                f.ie = 1;
                f.len = 4;
            }
            FieldDataType::SignedDataNumber => f.len = 4,
            _ => {}
        }
    }
}

pub fn conformant_case_lossless(cfg: StreamCfg, opts: BuildOpts) -> BoxedStrategy<Case> {
    (stream(cfg), any::<u32>())
        .prop_map(move |(mut p, rep)| {
            for alts in p.pool.v9.iter_mut() {
                for d in alts.iter_mut() {
                    make_lossless(Proto::V9, d);
                }
            }
            for alts in p.pool.ipfix.iter_mut() {
                for d in alts.iter_mut() {
                    make_lossless(Proto::Ipfix, d);
                }
            }
            let o = BuildOpts { proto_named: true, ..opts };
            let mut b = build(&p, &o);
            let mut params = BTreeMap::new();
            if with_repeat(&mut b.calls, rep) {
                params.insert("retransmission".to_string(), 1);
            } else {
                params.insert("built_data_records".to_string(), b.data_records as i64);
            }
            Case {
                allowed: vec![crate::engine::DEFAULT_ALLOWED.to_vec()],
                calls: b.calls,
                params,
            }
        })
        .boxed()
}

// re-exports for the byte-driven plan reader of the fuzz target
pub fn v9_field_pub(sel: u8, idx: u8, w: u8) -> FieldSpec {
    v9_field(sel, idx, w)
}
pub fn ipfix_field_pub(sel: u8, idx: u8, w: u8, flags: u8) -> FieldSpec {
    ipfix_field(sel, idx, w, flags)
}
pub fn fix_zero_len_pub(fields: &mut Vec<FieldSpec>) {
    fix_zero_len(fields)
}
pub fn vary_pub(proto: Proto, base: &Def, other: &Def, how: u8, pos: u8, w: u8) -> Def {
    vary(proto, base, other, how, pos, w)
}

// ---------------------------------------------------------------------------------------
// deterministic boundary counts
// ---------------------------------------------------------------------------------------

/// Conformant packets whose record / field / set / template COUNTS sit on and around the
/// boundaries where a narrower counter, index type or "reasonable" cap would bite (2^8, 2^10,
/// 2^12, 2^14, 2^15 and the datagram limit): records per data set, fields per template, data sets per packet, template
/// records per template flowset (V9) resp. template sets per message (IPFIX). One-byte and
/// four-byte unsigned fields only, so every oracle (decode, re-export, JSON) applies.
pub fn boundary_count_cases(proto: Proto) -> Vec<Case> {
    let mut out = vec![];
    let pkt = |nsets: usize, body: &[u8]| -> Vec<u8> {
        let mut w = W::default();
        match proto {
            Proto::V9 => enc_v9_header(&mut w, nsets as u16, &[11, 22, 33, 44]),
            Proto::Ipfix => enc_ipfix_header(&mut w, (16 + body.len()) as u16, &[11, 22, 33]),
        }
        w.bytes(body);
        w.0
    };
    let tpl = |id: u16, fields: Vec<(u16, u16)>| -> Vec<u8> {
        let d = Def { kind: Kind::Plain, scope_n: 0, fields: fields.into_iter().map(|(ie, len)| FieldSpec { ie, len, ent: None }).collect() };
        let mut r = W::default();
        enc_template_record(&mut r, proto, id, &d);
        let mut s = W::default();
        enc_set(&mut s, template_set_id(proto, Kind::Plain), &r.0, 0);
        s.0
    };
    let data = |id: u16, body: &[u8]| -> Vec<u8> {
        let mut s = W::default();
        enc_set(&mut s, id, body, 0);
        s.0
    };
    for n in [254usize, 255, 256, 257, 1023, 1024, 1025, 4095, 4096, 4097, 16383, 16384, 16385, 32767, 32768, 32769, 65500] {
        // (a) n one-byte records in one data set
        let body: Vec<u8> = (0..n).map(|i| (i % 251 + 1) as u8).collect();
        out.push(Case::history(vec![pkt(1, &tpl(256, vec![(5, 1)])), pkt(1, &data(256, &body))]));
        if n > 4097 {
            continue;
        }
        // (b) n one-byte fields in one template, two records
        let body: Vec<u8> = (0..2 * n).map(|i| (i % 253 + 1) as u8).collect();
        let mut both = tpl(300, vec![(5, 1); n]);
        both.extend(data(300, &body));
        out.push(Case::single(pkt(2, &both)));
        // (c) n data sets of one four-byte record each, in one packet
        let mut sets = vec![];
        for i in 0..n {
            sets.extend(data(257, &(i as u32 + 1).to_be_bytes()));
        }
        out.push(Case::history(vec![pkt(1, &tpl(257, vec![(1, 4)])), pkt(n, &sets)]));
        // (d) n template definitions in one packet, then data for the first, a middle and the last id
        let mut defs = vec![];
        match proto {
            Proto::V9 => {
                let mut recs = W::default();
                for i in 0..n {
                    let d = Def { kind: Kind::Plain, scope_n: 0, fields: vec![FieldSpec { ie: 1, len: [1u16, 2, 4, 8][i % 4], ent: None }] };
                    enc_template_record(&mut recs, proto, (1000 + i) as u16, &d);
                }
                let mut s = W::default();
                enc_set(&mut s, 0, &recs.0, 0);
                defs.push(pkt(1, &s.0));
            }
            Proto::Ipfix => {
                let mut b = vec![];
                for i in 0..n {
                    b.extend(tpl((1000 + i) as u16, vec![(1, [1u16, 2, 4, 8][i % 4])]));
                }
                defs.push(pkt(n, &b));
            }
        }
        for i in [0usize, n / 2, n - 1] {
            let w = [1usize, 2, 4, 8][i % 4];
            defs.push(pkt(1, &data((1000 + i) as u16, &vec![0x5a; 2 * w])));
        }
        out.push(Case::history(defs));
    }
    out
}
