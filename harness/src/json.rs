//! A small RFC 8259 reader written for the harness (independent of serde): numbers are
//! kept as text, object member order is preserved, duplicate members are kept.

#[derive(Debug, Clone, PartialEq)]
pub enum J {
    Null,
    Bool(bool),
    Num(String),
    Str(String),
    Arr(Vec<J>),
    Obj(Vec<(String, J)>),
}

pub struct P<'a> {
    b: &'a [u8],
    i: usize,
    depth: usize,
}

pub fn parse(text: &str) -> Result<J, String> {
    let mut p = P { b: text.as_bytes(), i: 0, depth: 0 };
    p.ws();
    let v = p.value()?;
    p.ws();
    if p.i != p.b.len() {
        return Err(format!("trailing characters at {}", p.i));
    }
    Ok(v)
}

impl<'a> P<'a> {
    fn ws(&mut self) {
        while self.i < self.b.len() && matches!(self.b[self.i], b' ' | b'\t' | b'\n' | b'\r') {
            self.i += 1;
        }
    }
    fn peek(&self) -> Option<u8> {
        self.b.get(self.i).copied()
    }
    fn expect(&mut self, c: u8) -> Result<(), String> {
        if self.peek() == Some(c) {
            self.i += 1;
            Ok(())
        } else {
            Err(format!("expected '{}' at {}", c as char, self.i))
        }
    }
    fn lit(&mut self, s: &str, v: J) -> Result<J, String> {
        if self.b[self.i..].starts_with(s.as_bytes()) {
            self.i += s.len();
            Ok(v)
        } else {
            Err(format!("bad literal at {}", self.i))
        }
    }
    fn value(&mut self) -> Result<J, String> {
        self.depth += 1;
        if self.depth > 256 {
            return Err("nesting too deep".into());
        }
        let r = match self.peek() {
            None => Err("unexpected end".into()),
            Some(b'n') => self.lit("null", J::Null),
            Some(b't') => self.lit("true", J::Bool(true)),
            Some(b'f') => self.lit("false", J::Bool(false)),
            Some(b'"') => self.string().map(J::Str),
            Some(b'[') => {
                self.i += 1;
                let mut v = vec![];
                self.ws();
                if self.peek() == Some(b']') {
                    self.i += 1;
                    Ok(J::Arr(v))
                } else {
                    loop {
                        self.ws();
                        v.push(self.value()?);
                        self.ws();
                        match self.peek() {
                            Some(b',') => self.i += 1,
                            Some(b']') => {
                                self.i += 1;
                                break Ok(J::Arr(v));
                            }
                            _ => break Err(format!("expected , or ] at {}", self.i)),
                        }
                    }
                }
            }
            Some(b'{') => {
                self.i += 1;
                let mut v = vec![];
                self.ws();
                if self.peek() == Some(b'}') {
                    self.i += 1;
                    Ok(J::Obj(v))
                } else {
                    loop {
                        self.ws();
                        let k = self.string()?;
                        self.ws();
                        self.expect(b':')?;
                        self.ws();
                        let x = self.value()?;
                        v.push((k, x));
                        self.ws();
                        match self.peek() {
                            Some(b',') => self.i += 1,
                            Some(b'}') => {
                                self.i += 1;
                                break Ok(J::Obj(v));
                            }
                            _ => break Err(format!("expected , or }} at {}", self.i)),
                        }
                    }
                }
            }
            Some(c) if c == b'-' || c.is_ascii_digit() => self.number(),
            Some(c) => Err(format!("unexpected byte {:#x} at {}", c, self.i)),
        };
        self.depth -= 1;
        r
    }
    fn number(&mut self) -> Result<J, String> {
        let s = self.i;
        if self.peek() == Some(b'-') {
            self.i += 1;
        }
        match self.peek() {
            Some(b'0') => self.i += 1,
            Some(c) if c.is_ascii_digit() => {
                while matches!(self.peek(), Some(c) if c.is_ascii_digit()) {
                    self.i += 1;
                }
            }
            _ => return Err(format!("bad number at {}", self.i)),
        }
        if self.peek() == Some(b'.') {
            self.i += 1;
            if !matches!(self.peek(), Some(c) if c.is_ascii_digit()) {
                return Err(format!("bad fraction at {}", self.i));
            }
            while matches!(self.peek(), Some(c) if c.is_ascii_digit()) {
                self.i += 1;
            }
        }
        if matches!(self.peek(), Some(b'e') | Some(b'E')) {
            self.i += 1;
            if matches!(self.peek(), Some(b'+') | Some(b'-')) {
                self.i += 1;
            }
            if !matches!(self.peek(), Some(c) if c.is_ascii_digit()) {
                return Err(format!("bad exponent at {}", self.i));
            }
            while matches!(self.peek(), Some(c) if c.is_ascii_digit()) {
                self.i += 1;
            }
        }
        Ok(J::Num(String::from_utf8_lossy(&self.b[s..self.i]).into_owned()))
    }
    fn hex4(&mut self) -> Result<u32, String> {
        if self.i + 4 > self.b.len() {
            return Err("short \\u escape".into());
        }
        let s = std::str::from_utf8(&self.b[self.i..self.i + 4]).map_err(|_| "bad \\u escape")?;
        let v = u32::from_str_radix(s, 16).map_err(|_| format!("bad \\u escape at {}", self.i))?;
        self.i += 4;
        Ok(v)
    }
    fn string(&mut self) -> Result<String, String> {
        self.expect(b'"')?;
        let mut out: Vec<u8> = vec![];
        loop {
            let Some(c) = self.peek() else { return Err("unterminated string".into()) };
            self.i += 1;
            match c {
                b'"' => break,
                b'\\' => {
                    let Some(e) = self.peek() else { return Err("bad escape".into()) };
                    self.i += 1;
                    match e {
                        b'"' => out.push(b'"'),
                        b'\\' => out.push(b'\\'),
                        b'/' => out.push(b'/'),
                        b'b' => out.push(8),
                        b'f' => out.push(12),
                        b'n' => out.push(b'\n'),
                        b'r' => out.push(b'\r'),
                        b't' => out.push(b'\t'),
                        b'u' => {
                            let mut cp = self.hex4()?;
                            if (0xd800..0xdc00).contains(&cp) {
                                if self.peek() == Some(b'\\') && self.b.get(self.i + 1) == Some(&b'u') {
                                    self.i += 2;
                                    let lo = self.hex4()?;
                                    if !(0xdc00..0xe000).contains(&lo) {
                                        return Err("bad low surrogate".into());
                                    }
                                    cp = 0x10000 + ((cp - 0xd800) << 10) + (lo - 0xdc00);
                                } else {
                                    return Err("lone high surrogate".into());
                                }
                            } else if (0xdc00..0xe000).contains(&cp) {
                                return Err("lone low surrogate".into());
                            }
                            let ch = char::from_u32(cp).ok_or("bad code point")?;
                            let mut buf = [0u8; 4];
                            out.extend_from_slice(ch.encode_utf8(&mut buf).as_bytes());
                        }
                        _ => return Err(format!("bad escape \\{} at {}", e as char, self.i)),
                    }
                }
                0..=0x1f => return Err(format!("unescaped control character at {}", self.i - 1)),
                _ => out.push(c),
            }
        }
        String::from_utf8(out).map_err(|_| "string is not valid UTF-8".to_string())
    }
}

impl J {
    pub fn get(&self, k: &str) -> Option<&J> {
        match self {
            J::Obj(m) => m.iter().find(|(n, _)| n == k).map(|(_, v)| v),
            _ => None,
        }
    }
}
