pub mod alloc;
pub mod engine;
pub mod gen;
pub mod json;
pub mod obs;
pub mod props;
pub mod refdec;
pub mod wire;
