//! Wire model and hand-written big-endian encoder.
//!
//! Nothing in this file calls the library's serialisers. The only library items used are
//! the *public lookup tables* (field number -> data type), and only to choose sensible
//! values for a field (e.g. valid UTF-8 for strings in strict mode); slicing and
//! interpretation of bytes is done in `refdec.rs`.

use std::collections::BTreeMap;

pub const VARLEN: u16 = 65535;

pub fn be16(b: &[u8], o: usize) -> u16 {
    u16::from_be_bytes([b[o], b[o + 1]])
}
pub fn be32(b: &[u8], o: usize) -> u32 {
    u32::from_be_bytes([b[o], b[o + 1], b[o + 2], b[o + 3]])
}

pub fn hex(b: &[u8]) -> String {
    let mut s = String::with_capacity(b.len() * 2);
    for x in b {
        s.push_str(&format!("{:02x}", x));
    }
    s
}
pub fn unhex(s: &str) -> Option<Vec<u8>> {
    let s = s.as_bytes();
    if s.len() % 2 != 0 {
        return None;
    }
    let mut out = Vec::with_capacity(s.len() / 2);
    for c in s.chunks(2) {
        let h = (c[0] as char).to_digit(16)?;
        let l = (c[1] as char).to_digit(16)?;
        out.push((h * 16 + l) as u8);
    }
    Some(out)
}

/// FNV-1a 64 bit, used for case digests (distinctness counting) - deterministic.
pub fn fnv(parts: &[&[u8]]) -> u64 {
    let mut h: u64 = 0xcbf29ce484222325;
    for p in parts {
        for b in *p {
            h ^= *b as u64;
            h = h.wrapping_mul(0x100000001b3);
        }
        h ^= 0xff;
        h = h.wrapping_mul(0x100000001b3);
    }
    h
}

#[derive(Default, Clone)]
pub struct W(pub Vec<u8>);
impl W {
    pub fn u8(&mut self, v: u8) -> &mut Self {
        self.0.push(v);
        self
    }
    pub fn u16(&mut self, v: u16) -> &mut Self {
        self.0.extend_from_slice(&v.to_be_bytes());
        self
    }
    pub fn u32(&mut self, v: u32) -> &mut Self {
        self.0.extend_from_slice(&v.to_be_bytes());
        self
    }
    pub fn bytes(&mut self, v: &[u8]) -> &mut Self {
        self.0.extend_from_slice(v);
        self
    }
}

#[derive(Clone, Copy, Debug, PartialEq, Eq, Hash, PartialOrd, Ord)]
pub enum Proto {
    V9,
    Ipfix,
}

#[derive(Clone, Debug, PartialEq, Eq, Hash, PartialOrd, Ord)]
pub struct FieldSpec {
    /// information element / field type number (without the enterprise bit)
    pub ie: u16,
    /// declared length; 65535 = variable length (IPFIX only)
    pub len: u16,
    /// enterprise number (IPFIX only)
    pub ent: Option<u32>,
}

#[derive(Clone, Copy, Debug, PartialEq, Eq, Hash, PartialOrd, Ord)]
pub enum Kind {
    Plain,
    Options,
}

/// One template definition. For `Kind::Options` the first `scope_n` fields are the scope
/// fields (V9: `ie` is the scope type 1..=5; IPFIX: ordinary field specifiers).
#[derive(Clone, Debug, PartialEq, Eq, Hash, PartialOrd, Ord)]
pub struct Def {
    pub kind: Kind,
    pub scope_n: u16,
    pub fields: Vec<FieldSpec>,
}

impl Def {
    /// minimal number of bytes one record of this template occupies
    pub fn min_record_len(&self) -> usize {
        self.fields
            .iter()
            .map(|f| if f.len == VARLEN { 1 } else { f.len as usize })
            .sum()
    }
    pub fn has_varlen(&self) -> bool {
        self.fields.iter().any(|f| f.len == VARLEN)
    }
    /// wire size of the template record itself
    pub fn wire_size(&self, proto: Proto) -> usize {
        let per: usize = self
            .fields
            .iter()
            .map(|f| if f.ent.is_some() { 8 } else { 4 })
            .sum();
        match (proto, self.kind) {
            (_, Kind::Plain) => 4 + per,
            (_, Kind::Options) => 6 + per,
        }
    }
}

/// encode one template record (not the set header)
pub fn enc_template_record(w: &mut W, proto: Proto, id: u16, def: &Def) {
    match (proto, def.kind) {
        (Proto::V9, Kind::Plain) => {
            w.u16(id).u16(def.fields.len() as u16);
            for f in &def.fields {
                w.u16(f.ie).u16(f.len);
            }
        }
        (Proto::V9, Kind::Options) => {
            let sn = def.scope_n as usize;
            w.u16(id)
                .u16((sn * 4) as u16)
                .u16(((def.fields.len() - sn) * 4) as u16);
            for f in &def.fields {
                w.u16(f.ie).u16(f.len);
            }
        }
        (Proto::Ipfix, k) => {
            w.u16(id).u16(def.fields.len() as u16);
            if k == Kind::Options {
                w.u16(def.scope_n);
            }
            for f in &def.fields {
                match f.ent {
                    Some(e) => {
                        w.u16(f.ie | 0x8000).u16(f.len).u32(e);
                    }
                    None => {
                        w.u16(f.ie).u16(f.len);
                    }
                }
            }
        }
    }
}

/// encode a set / flowset: id, length (computed), body, `pad` zero bytes
pub fn enc_set(w: &mut W, id: u16, body: &[u8], pad: usize) {
    w.u16(id).u16((4 + body.len() + pad) as u16).bytes(body);
    for _ in 0..pad {
        w.u8(0);
    }
}

pub fn template_set_id(proto: Proto, kind: Kind) -> u16 {
    match (proto, kind) {
        (Proto::V9, Kind::Plain) => 0,
        (Proto::V9, Kind::Options) => 1,
        (Proto::Ipfix, Kind::Plain) => 2,
        (Proto::Ipfix, Kind::Options) => 3,
    }
}

pub fn enc_v9_header(w: &mut W, count: u16, h: &[u32; 4]) {
    w.u16(9).u16(count).u32(h[0]).u32(h[1]).u32(h[2]).u32(h[3]);
}
pub fn enc_ipfix_header(w: &mut W, length: u16, h: &[u32; 3]) {
    w.u16(10).u16(length).u32(h[0]).u32(h[1]).u32(h[2]);
}

/// V5 / V7 packet from raw parts: `hdr_rest` = the 20 header bytes after version+count,
/// `recs` = 48 / 52 byte records.
pub fn enc_fixed(version: u16, count: u16, hdr_rest: &[u8], recs: &[Vec<u8>]) -> Vec<u8> {
    let mut w = W::default();
    w.u16(version).u16(count).bytes(hdr_rest);
    for r in recs {
        w.bytes(r);
    }
    w.0
}

/// variable-length value with its RFC 7011 length prefix
pub fn enc_varlen(w: &mut W, v: &[u8], long_form: bool) {
    if long_form || v.len() >= 255 {
        w.u8(255).u16(v.len() as u16);
    } else {
        w.u8(v.len() as u8);
    }
    w.bytes(v);
}

/// Template cache model: latest definition wins, never evicts; one per modelled parser.
#[derive(Clone, Debug, Default, PartialEq, Eq)]
pub struct Cache {
    pub v9: BTreeMap<u16, Def>,
    pub ipfix: BTreeMap<u16, Def>,
}
impl Cache {
    pub fn map(&self, p: Proto) -> &BTreeMap<u16, Def> {
        match p {
            Proto::V9 => &self.v9,
            Proto::Ipfix => &self.ipfix,
        }
    }
    pub fn map_mut(&mut self, p: Proto) -> &mut BTreeMap<u16, Def> {
        match p {
            Proto::V9 => &mut self.v9,
            Proto::Ipfix => &mut self.ipfix,
        }
    }
    pub fn wire_size(&self) -> usize {
        self.v9.values().map(|d| d.wire_size(Proto::V9)).sum::<usize>()
            + self.ipfix.values().map(|d| d.wire_size(Proto::Ipfix)).sum::<usize>()
    }
}
