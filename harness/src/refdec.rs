//! Independent reference decoders (Cisco V5/V7 layout, RFC 3954, RFC 7011) and the
//! expected typed value of a field. Shares no code with the library; the only library
//! items consulted are the public lookup tables that say *which* data type the library
//! assigns to a field number (the property texts of C04/C05 make that assignment part of
//! the statement; the tables themselves are pinned by the suite's snapshot tests).

use crate::wire::*;
use netflow_parser::variable_versions::data_number::FieldDataType;
use netflow_parser::variable_versions::ipfix_lookup::IPFixField;
use netflow_parser::variable_versions::v9_lookup::V9Field;
use std::time::Duration;

/// input lies outside the conformant envelope (DESIGN §3.2); carries the reason
#[derive(Debug, Clone)]
pub struct NonConf(pub String);

fn nc<T>(s: impl Into<String>) -> Result<T, NonConf> {
    Err(NonConf(s.into()))
}

// ---------------------------------------------------------------------------------------
// V5 / V7
// ---------------------------------------------------------------------------------------

/// (name, offset, width) - transcribed from the Cisco NetFlow export datagram format
pub const V5_HEADER: &[(&str, usize, usize)] = &[
    ("version", 0, 2),
    ("count", 2, 2),
    ("sys_up_time", 4, 4),
    ("unix_secs", 8, 4),
    ("unix_nsecs", 12, 4),
    ("flow_sequence", 16, 4),
    ("engine_type", 20, 1),
    ("engine_id", 21, 1),
    ("sampling_interval", 22, 2),
];
pub const V7_HEADER: &[(&str, usize, usize)] = &[
    ("version", 0, 2),
    ("count", 2, 2),
    ("sys_up_time", 4, 4),
    ("unix_secs", 8, 4),
    ("unix_nsecs", 12, 4),
    ("flow_sequence", 16, 4),
    ("reserved", 20, 4),
];
pub const V5_RECORD: &[(&str, usize, usize)] = &[
    ("src_addr", 0, 4),
    ("dst_addr", 4, 4),
    ("next_hop", 8, 4),
    ("input", 12, 2),
    ("output", 14, 2),
    ("d_pkts", 16, 4),
    ("d_octets", 20, 4),
    ("first", 24, 4),
    ("last", 28, 4),
    ("src_port", 32, 2),
    ("dst_port", 34, 2),
    ("pad1", 36, 1),
    ("tcp_flags", 37, 1),
    ("protocol_number", 38, 1),
    ("tos", 39, 1),
    ("src_as", 40, 2),
    ("dst_as", 42, 2),
    ("src_mask", 44, 1),
    ("dst_mask", 45, 1),
    ("pad2", 46, 2),
];
pub const V7_RECORD: &[(&str, usize, usize)] = &[
    ("src_addr", 0, 4),
    ("dst_addr", 4, 4),
    ("next_hop", 8, 4),
    ("input", 12, 2),
    ("output", 14, 2),
    ("d_pkts", 16, 4),
    ("d_octets", 20, 4),
    ("first", 24, 4),
    ("last", 28, 4),
    ("src_port", 32, 2),
    ("dst_port", 34, 2),
    ("flags_fields_valid", 36, 1),
    ("tcp_flags", 37, 1),
    ("protocol_number", 38, 1),
    ("tos", 39, 1),
    ("src_as", 40, 2),
    ("dst_as", 42, 2),
    ("src_mask", 44, 1),
    ("dst_mask", 45, 1),
    ("flags_fields_invalid", 46, 2),
    ("router_src", 48, 4),
];

pub fn be_uint(b: &[u8]) -> u64 {
    b.iter().fold(0u64, |a, x| (a << 8) | *x as u64)
}

pub type Named = Vec<(&'static str, u64)>;

#[derive(Debug, Clone)]
pub struct RefFixed {
    pub version: u16,
    pub header: Named,
    pub records: Vec<Named>,
    pub len: usize,
}

/// Decode a V5/V7 packet at the start of `buf`. `Ok(None)` = buffer shorter than the
/// packet its header announces (the library must report an error).
pub fn dec_fixed(buf: &[u8]) -> Option<RefFixed> {
    if buf.len() < 24 {
        return None;
    }
    let version = be16(buf, 0);
    let (ht, rt, rl) = match version {
        5 => (V5_HEADER, V5_RECORD, 48usize),
        7 => (V7_HEADER, V7_RECORD, 52usize),
        _ => return None,
    };
    let count = be16(buf, 2) as usize;
    let len = 24 + rl * count;
    if buf.len() < len {
        return None;
    }
    let header = ht
        .iter()
        .map(|(n, o, w)| (*n, be_uint(&buf[*o..*o + *w])))
        .collect();
    let records = (0..count)
        .map(|i| {
            let r = &buf[24 + i * rl..24 + (i + 1) * rl];
            rt.iter()
                .map(|(n, o, w)| (*n, be_uint(&r[*o..*o + *w])))
                .collect()
        })
        .collect();
    Some(RefFixed {
        version,
        header,
        records,
        len,
    })
}

/// IANA "Assigned Internet Protocol Numbers" keywords, transcribed by hand; compared with
/// the library's variant names after normalisation (alphanumerics only, lower case).
/// Numbers without an IANA keyword (61, 63, 68, 99, 114) are described, not named, by
/// IANA; for them the normalised description is used. 145..=252 unassigned, 253/254
/// experimental, 255 Reserved.
pub const IANA_PROTO: [&str; 145] = [
    "HOPOPT", "ICMP", "IGMP", "GGP", "IPv4", "ST", "TCP", "CBT", "EGP", "IGP",
    "BBN-RCC-MON", "NVP-II", "PUP", "ARGUS", "EMCON", "XNET", "CHAOS", "UDP", "MUX", "DCN-MEAS",
    "HMP", "PRM", "XNS-IDP", "TRUNK-1", "TRUNK-2", "LEAF-1", "LEAF-2", "RDP", "IRTP", "ISO-TP4",
    "NETBLT", "MFE-NSP", "MERIT-INP", "DCCP", "3PC", "IDPR", "XTP", "DDP", "IDPR-CMTP", "TP++",
    "IL", "IPv6", "SDRP", "IPv6-Route", "IPv6-Frag", "IDRP", "RSVP", "GRE", "DSR", "BNA",
    "ESP", "AH", "I-NLSP", "SWIPE", "NARP", "MOBILE", "TLSP", "SKIP", "IPv6-ICMP", "IPv6-NoNxt",
    "IPv6-Opts", "any host internal protocol", "CFTP", "any local network", "SAT-EXPAK", "KRYPTOLAN", "RVD", "IPPC", "any distributed file system", "SAT-MON",
    "VISA", "IPCV", "CPNX", "CPHB", "WSN", "PVP", "BR-SAT-MON", "SUN-ND", "WB-MON", "WB-EXPAK",
    "ISO-IP", "VMTP", "SECURE-VMTP", "VINES", "IPTM", "NSFNET-IGP", "DGP", "TCF", "EIGRP", "OSPFIGP",
    "Sprite-RPC", "LARP", "MTP", "AX.25", "IPIP", "MICP", "SCC-SP", "ETHERIP", "ENCAP", "any private encryption scheme",
    "GMTP", "IFMP", "PNNI", "PIM", "ARIS", "SCPS", "QNX", "A/N", "IPComp", "SNP",
    "Compaq-Peer", "IPX-in-IP", "VRRP", "PGM", "any 0-hop protocol", "L2TP", "DDX", "IATP", "STP", "SRP",
    "UTI", "SMP", "SM", "PTP", "ISIS over IPv4", "FIRE", "CRTP", "CRUDP", "SSCOPMCE", "IPLT",
    "SPS", "PIPE", "SCTP", "FC", "RSVP-E2E-IGNORE", "Mobility Header", "UDPLite", "MPLS-in-IP", "manet", "HIP",
    "Shim6", "WESP", "ROHC", "Ethernet", "AGGFRAG",
];

/// is `got` (normalised) an acceptable name for protocol number `n`? IANA assigns no keyword
/// to 145..=252 (unassigned) and 253/254 (experimentation and testing): any wording of
/// "unknown" / "unassigned" (with or without the number attached, e.g. a future
/// `Unknown(200)`), resp. "experimental" / "testing", is accepted there
pub fn proto_name_ok(n: u8, got: &str) -> bool {
    if iana_names(n).iter().any(|x| x == got) {
        return true;
    }
    let stem = got.trim_end_matches(|c: char| c.is_ascii_digit());
    match n {
        145..=252 => matches!(stem, "unknown" | "unassigned"),
        253 | 254 => matches!(stem, "unknown" | "unassigned" | "experimental" | "experimentation" | "experimentationandtesting" | "testing" | "useforexperimentationandtesting"),
        _ => false,
    }
}

pub fn norm_name(s: &str) -> String {
    s.chars()
        .filter(|c| c.is_ascii_alphanumeric())
        .map(|c| c.to_ascii_lowercase())
        .collect()
}

/// Accepted normalised names for protocol number `n` (library variant Debug name is
/// normalised the same way). A few library spellings differ from the IANA keyword only by
/// rendering a non-identifier (leading digit, '+', missing keyword); both spellings are
/// accepted for those.
pub fn iana_names(n: u8) -> Vec<String> {
    let mut v = vec![];
    match n {
        0..=144 => {
            v.push(norm_name(IANA_PROTO[n as usize]));
            match n {
                // the library's identifier is a misspelling of the same keyword (BBN-RCC-MON,
                // XNS-IDP): a rendering issue, not a number mapped to another protocol
                10 => v.push("bbcrccmon".into()),
                22 => v.push("xnxidp".into()),
                34 => v.push("threepc".into()),
                39 => v.push("tppp".into()),
                // IANA gives no keyword for these; the library's identifiers differ in wording
                61 => v.push("anydistributedprotocol".into()),
                _ => {}
            }
        }
        255 => v.push("reserved".into()),
        _ => v.push("unknown".into()),
    }
    v
}

// ---------------------------------------------------------------------------------------
// typed expectation
// ---------------------------------------------------------------------------------------

#[derive(Debug, Clone, PartialEq)]
pub enum Exp {
    U8(u8),
    U16(u16),
    U24(u32),
    U32(u32),
    U64(u64),
    U128(u128),
    I24(i32),
    /// signed 1/2/4-byte values, sign-extended
    I32(i32),
    /// signed 8/16-byte value: the library's value enum cannot hold it (finding D24)
    IWide(i128, usize),
    /// text of a string element (lossy conversion of the wire bytes) and the wire bytes
    Str(String, Vec<u8>),
    F64Bits(u64),
    Dur(Duration),
    Ip4([u8; 4]),
    Ip6([u8; 16]),
    Mac(String),
    Bytes(Vec<u8>),
    /// V9 PROTOCOL: the protocol number
    Proto(u8),
    /// value of a data type this harness does not know: anything is accepted
    Opaque,
}

pub fn v9_dtype(ie: u16) -> FieldDataType {
    V9Field::from(ie).into()
}
pub fn ipfix_dtype(ie: u16) -> FieldDataType {
    IPFixField::from(ie).into()
}
pub fn dtype(proto: Proto, f: &FieldSpec) -> FieldDataType {
    match proto {
        Proto::V9 => v9_dtype(f.ie),
        Proto::Ipfix => ipfix_dtype(f.ie),
    }
}

/// the legal declared widths for a data type inside the conformant envelope
pub fn legal_widths(dt: &FieldDataType) -> &'static [u16] {
    match dt {
        FieldDataType::UnsignedDataNumber => &[1, 2, 3, 4, 8, 16],
        // the only signed element the library knows (434) is signed32: wider encodings are
        // not conformant (RFC 7011 6.2 only allows reduced sizes)
        FieldDataType::SignedDataNumber => &[1, 2, 3, 4],
        FieldDataType::DurationSeconds
        | FieldDataType::DurationMillis
        | FieldDataType::DurationMicros
        | FieldDataType::DurationNanos => &[1, 2, 3, 4, 8],
        FieldDataType::Ip4Addr => &[4],
        FieldDataType::Ip6Addr => &[16],
        FieldDataType::MacAddr => &[6],
        FieldDataType::Float64 => &[8],
        FieldDataType::ProtocolType => &[1],
        FieldDataType::String | FieldDataType::Vec | FieldDataType::Unknown => &[],
        // a data type added to the library later: treated like an opaque field
        #[allow(unreachable_patterns)]
        _ => &[],
    }
}

fn be_u128(b: &[u8]) -> u128 {
    b.iter().fold(0u128, |a, x| (a << 8) | *x as u128)
}
fn be_i128(b: &[u8]) -> i128 {
    let u = be_u128(b);
    let bits = (b.len() * 8) as u32;
    if bits == 128 {
        u as i128
    } else if b.is_empty() {
        0
    } else if u >> (bits - 1) & 1 == 1 {
        (u as i128) - (1i128 << bits)
    } else {
        u as i128
    }
}

/// Expected value of a field of data type `dt` whose value occupies exactly `b`.
/// `Err` = the width is outside what the library supports for that type.
pub fn expect(dt: &FieldDataType, b: &[u8]) -> Result<Exp, NonConf> {
    let n = b.len();
    Ok(match dt {
        FieldDataType::UnsignedDataNumber => match n {
            1 => Exp::U8(b[0]),
            2 => Exp::U16(be_uint(b) as u16),
            3 => Exp::U24(be_uint(b) as u32),
            4 => Exp::U32(be_uint(b) as u32),
            8 => Exp::U64(be_uint(b)),
            16 => Exp::U128(be_u128(b)),
            _ => return nc(format!("unsigned width {}", n)),
        },
        FieldDataType::SignedDataNumber => match n {
            1 | 2 | 4 => Exp::I32(be_i128(b) as i32),
            3 => Exp::I24(be_i128(b) as i32),
            8 | 16 => Exp::IWide(be_i128(b), n),
            _ => return nc(format!("signed width {}", n)),
        },
        FieldDataType::String => Exp::Str(String::from_utf8_lossy(b).into_owned(), b.to_vec()),
        FieldDataType::Ip4Addr => match n {
            4 => Exp::Ip4([b[0], b[1], b[2], b[3]]),
            _ => return nc("ipv4 width"),
        },
        FieldDataType::Ip6Addr => match n {
            16 => {
                let mut a = [0u8; 16];
                a.copy_from_slice(b);
                Exp::Ip6(a)
            }
            _ => return nc("ipv6 width"),
        },
        FieldDataType::MacAddr => match n {
            6 => Exp::Mac(
                b.iter()
                    .map(|x| format!("{:02X}", x))
                    .collect::<Vec<_>>()
                    .join(":"),
            ),
            _ => return nc("mac width"),
        },
        FieldDataType::DurationSeconds
        | FieldDataType::DurationMillis
        | FieldDataType::DurationMicros
        | FieldDataType::DurationNanos => {
            if ![1, 2, 3, 4, 8].contains(&n) {
                return nc(format!("duration width {}", n));
            }
            let v = be_uint(b);
            Exp::Dur(match dt {
                FieldDataType::DurationSeconds => Duration::from_secs(v),
                FieldDataType::DurationMillis => Duration::from_millis(v),
                FieldDataType::DurationMicros => Duration::from_micros(v),
                _ => Duration::from_nanos(v),
            })
        }
        FieldDataType::ProtocolType => match n {
            1 => Exp::Proto(b[0]),
            _ => return nc("protocol width"),
        },
        FieldDataType::Float64 => match n {
            8 => Exp::F64Bits(be_uint(b)),
            _ => return nc("float width"),
        },
        FieldDataType::Vec | FieldDataType::Unknown => Exp::Bytes(b.to_vec()),
        // a data type added to the library later: the slicing is still checked, the value is not
        #[allow(unreachable_patterns)]
        _ => Exp::Opaque,
    })
}

// ---------------------------------------------------------------------------------------
// V9 / IPFIX
// ---------------------------------------------------------------------------------------

#[derive(Debug, Clone, PartialEq)]
pub enum RefBody {
    /// template or options-template records (kind inside each Def)
    Templates {
        tpls: Vec<(u16, Def)>,
        padding: Vec<u8>,
    },
    /// data decoded with `def`; one Vec<value bytes> per record (values without any
    /// variable-length prefix)
    Data {
        def: Def,
        records: Vec<Vec<Vec<u8>>>,
        padding: Vec<u8>,
    },
    /// data set for an id that is not in the cache for this protocol
    UnknownTemplate,
}

#[derive(Debug, Clone, PartialEq)]
pub struct RefSet {
    pub id: u16,
    pub length: u16,
    /// offset of the set header inside the packet
    pub off: usize,
    pub body: RefBody,
}

#[derive(Debug, Clone, PartialEq)]
pub struct RefPkt {
    pub proto: Proto,
    /// V9: count, sys_up_time, unix_secs, sequence, source_id; IPFIX: length, export_time, sequence, domain
    pub header: Vec<u32>,
    pub sets: Vec<RefSet>,
    /// bytes occupied by this packet
    pub len: usize,
}

impl RefPkt {
    pub fn data_records(&self) -> usize {
        self.sets
            .iter()
            .map(|s| match &s.body {
                RefBody::Data { records, .. } => records.len(),
                _ => 0,
            })
            .sum()
    }
    pub fn has_unknown(&self) -> bool {
        self.sets
            .iter()
            .any(|s| matches!(s.body, RefBody::UnknownTemplate))
    }
}

fn dec_records(
    proto: Proto,
    def: &Def,
    body: &[u8],
) -> Result<(Vec<Vec<Vec<u8>>>, Vec<u8>), NonConf> {
    let min = def.min_record_len();
    if min == 0 {
        return nc("template with minimal record length 0");
    }
    let mut recs = vec![];
    let mut p = 0usize;
    if !def.has_varlen() {
        let n = body.len() / min;
        for _ in 0..n {
            let mut r = vec![];
            for f in &def.fields {
                r.push(body[p..p + f.len as usize].to_vec());
                p += f.len as usize;
            }
            recs.push(r);
        }
    } else {
        if proto == Proto::V9 {
            return nc("variable length in V9");
        }
        while body.len() - p >= min {
            let mut r = vec![];
            for f in &def.fields {
                let l = if f.len == VARLEN {
                    if p >= body.len() {
                        return nc("varlen prefix beyond set");
                    }
                    let b0 = body[p] as usize;
                    p += 1;
                    if b0 == 255 {
                        if p + 2 > body.len() {
                            return nc("varlen long prefix beyond set");
                        }
                        let l = be16(body, p) as usize;
                        p += 2;
                        l
                    } else {
                        b0
                    }
                } else {
                    f.len as usize
                };
                if p + l > body.len() {
                    return nc("field beyond set");
                }
                r.push(body[p..p + l].to_vec());
                p += l;
            }
            recs.push(r);
        }
    }
    Ok((recs, body[p..].to_vec()))
}

fn dec_tpl_records(
    proto: Proto,
    kind: Kind,
    body: &[u8],
) -> Result<(Vec<(u16, Def)>, Vec<u8>), NonConf> {
    let mut p = 0usize;
    let mut out = vec![];
    let hdr = match kind {
        Kind::Plain => 4,
        Kind::Options => 6,
    };
    // RFC 3954 / 7011: padding is at most 3 bytes, so anything >= 4 bytes is a record
    while body.len() - p >= 4 {
        if body.len() - p < hdr {
            return nc("options template record header truncated");
        }
        let id = be16(body, p);
        if id < 256 {
            return nc(format!("template id {} < 256", id));
        }
        let (n_fields, scope_n) = match (proto, kind) {
            (_, Kind::Plain) => (be16(body, p + 2) as usize, 0u16),
            (Proto::V9, Kind::Options) => {
                let sl = be16(body, p + 2);
                let ol = be16(body, p + 4);
                if sl % 4 != 0 || ol % 4 != 0 {
                    return nc("v9 options lengths not multiple of 4");
                }
                (((sl / 4) + (ol / 4)) as usize, sl / 4)
            }
            (Proto::Ipfix, Kind::Options) => {
                let fc = be16(body, p + 2);
                let sc = be16(body, p + 4);
                if sc == 0 || sc > fc {
                    return nc("ipfix scope count out of range");
                }
                (fc as usize, sc)
            }
        };
        if n_fields == 0 {
            return nc("template with no fields / withdrawal");
        }
        p += hdr;
        let mut fields = vec![];
        for _ in 0..n_fields {
            if p + 4 > body.len() {
                return nc("template record truncated");
            }
            let t = be16(body, p);
            let l = be16(body, p + 2);
            p += 4;
            if proto == Proto::Ipfix && t & 0x8000 != 0 {
                if p + 4 > body.len() {
                    return nc("enterprise number truncated");
                }
                let e = be32(body, p);
                p += 4;
                fields.push(FieldSpec {
                    ie: t & 0x7fff,
                    len: l,
                    ent: Some(e),
                });
            } else {
                fields.push(FieldSpec {
                    ie: t,
                    len: l,
                    ent: None,
                });
            }
        }
        out.push((
            id,
            Def {
                kind,
                scope_n,
                fields,
            },
        ));
    }
    Ok((out, body[p..].to_vec()))
}

/// Decode the sets in `body` (`base` = offset of body in packet). `limit` = max number
/// of sets (V9 header count), None = until the end.
fn dec_sets(
    proto: Proto,
    pkt: &[u8],
    base: usize,
    end: usize,
    limit: Option<usize>,
    cache: &mut Cache,
    stop_at_unknown: bool,
) -> Result<(Vec<RefSet>, usize), NonConf> {
    let mut sets = vec![];
    let mut p = base;
    while p < end {
        if let Some(l) = limit {
            if sets.len() >= l {
                break;
            }
        }
        if end - p < 4 {
            return nc("trailing bytes shorter than a set header");
        }
        let id = be16(pkt, p);
        let length = be16(pkt, p + 2);
        if (length as usize) < 4 || p + length as usize > end {
            return nc("set length out of range");
        }
        let body = &pkt[p + 4..p + length as usize];
        let tpl_kind = match (proto, id) {
            (Proto::V9, 0) | (Proto::Ipfix, 2) => Some(Kind::Plain),
            (Proto::V9, 1) | (Proto::Ipfix, 3) => Some(Kind::Options),
            _ => None,
        };
        let rb = if let Some(k) = tpl_kind {
            let (tpls, padding) = dec_tpl_records(proto, k, body)?;
            if tpls.is_empty() {
                return nc("template set without records");
            }
            for (tid, d) in &tpls {
                cache.map_mut(proto).insert(*tid, d.clone());
            }
            RefBody::Templates { tpls, padding }
        } else if id < 256 {
            return nc(format!("reserved set id {}", id));
        } else {
            match cache.map(proto).get(&id).cloned() {
                None => RefBody::UnknownTemplate,
                Some(def) => {
                    let (records, padding) = dec_records(proto, &def, body)?;
                    if records.is_empty() {
                        return nc("data set without records (RFC: one or more records)");
                    }
                    RefBody::Data {
                        def,
                        records,
                        padding,
                    }
                }
            }
        };
        let unknown = matches!(rb, RefBody::UnknownTemplate);
        sets.push(RefSet {
            id,
            length,
            off: p,
            body: rb,
        });
        p += length as usize;
        if unknown && stop_at_unknown {
            // model of "decoding of this message stops at the undecodable set"
            return Ok((sets, end));
        }
    }
    Ok((sets, p))
}

/// RFC 3954 packet at the start of `buf` (which may contain further packets). The packet
/// ends after `count` flowsets or at the end of the buffer (the library documents `count`
/// as the number of flowsets; DESIGN §3.2).
pub fn dec_v9(buf: &[u8], cache: &mut Cache) -> Result<RefPkt, NonConf> {
    if buf.len() < 20 || be16(buf, 0) != 9 {
        return nc("short or not v9");
    }
    let count = be16(buf, 2);
    let header = vec![
        count as u32,
        be32(buf, 4),
        be32(buf, 8),
        be32(buf, 12),
        be32(buf, 16),
    ];
    let (sets, end) = dec_sets(Proto::V9, buf, 20, buf.len(), Some(count as usize), cache, false)?;
    Ok(RefPkt {
        proto: Proto::V9,
        header,
        sets,
        len: end,
    })
}

/// RFC 7011 message at the start of `buf`.
pub fn dec_ipfix(buf: &[u8], cache: &mut Cache) -> Result<RefPkt, NonConf> {
    dec_ipfix_opts(buf, cache, false)
}

/// `stop_at_unknown`: sets after the first set without a template are neither decoded nor
/// learned from (the library's documented many0 behaviour, C07)
pub fn dec_ipfix_opts(buf: &[u8], cache: &mut Cache, stop_at_unknown: bool) -> Result<RefPkt, NonConf> {
    if buf.len() < 16 || be16(buf, 0) != 10 {
        return nc("short or not ipfix");
    }
    let length = be16(buf, 2) as usize;
    if length < 16 || length > buf.len() {
        return nc("message length out of range");
    }
    let header = vec![length as u32, be32(buf, 4), be32(buf, 8), be32(buf, 12)];
    let (sets, end) = dec_sets(Proto::Ipfix, buf, 16, length, None, cache, stop_at_unknown)?;
    if end != length {
        return nc("sets do not fill the message");
    }
    Ok(RefPkt {
        proto: Proto::Ipfix,
        header,
        sets,
        len: length,
    })
}
