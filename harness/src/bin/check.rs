//! `check <ID> [--tier quick|thorough] [--replay FILE]`

use nfv::engine::{install_quiet_panic_hook, Case, Ctx, Verdict};
use nfv::props;

#[global_allocator]
static A: nfv::alloc::Counting = nfv::alloc::Counting;

fn main() {
    let args: Vec<String> = std::env::args().collect();
    if args.len() < 2 {
        eprintln!("usage: check <ID> [--tier quick|thorough] [--replay FILE]");
        std::process::exit(2);
    }
    let id = args[1].clone();
    let mut tier = std::env::var("VERIF_TIER").unwrap_or_else(|_| "quick".into());
    let mut replay = None;
    let mut i = 2;
    while i < args.len() {
        match args[i].as_str() {
            "--tier" => {
                tier = args[i + 1].clone();
                i += 1;
            }
            "--replay" => {
                replay = Some(args[i + 1].clone());
                i += 1;
            }
            _ => {}
        }
        i += 1;
    }
    let seed: u64 = std::env::var("VERIF_SEED")
        .ok()
        .and_then(|s| s.parse::<i64>().ok())
        .map(|v| v as u64)
        .unwrap_or(0);
    install_quiet_panic_hook();
    let Some(def) = props::all().into_iter().find(|d| d.id == id) else {
        eprintln!("unknown property {}", id);
        std::process::exit(2);
    };
    if let Some(path) = replay {
        // plain regression check: no generator, no proptest runner
        let text = std::fs::read_to_string(&path).expect("replay file");
        let v: serde_json::Value = serde_json::from_str(&text).expect("json");
        let case = Case::from_json(&v).expect("case");
        if id == "C01" {
            // crash-isolated: a stack overflow or abort must not take this process down
            let dir = std::env::temp_dir().join(format!("nfv-replay-{}", std::process::id()));
            let _ = std::fs::create_dir_all(&dir);
            let mut bad = None;
            for profile in ["release", "o0"] {
                match nfv::props::c01::exec_in_worker(profile, &case, dir.to_str().unwrap(), "replay") {
                    nfv::props::c01::ExecResult::Pass => println!("replay [{} profile]: PASS", profile),
                    nfv::props::c01::ExecResult::Capped => println!("replay [{} profile]: resource cap (C15 territory)", profile),
                    nfv::props::c01::ExecResult::Hang => {
                        println!("replay [{} profile]: no result within the watchdog - inconclusive", profile);
                        let _ = std::fs::remove_dir_all(&dir);
                        std::process::exit(2);
                    }
                    nfv::props::c01::ExecResult::Infra(m) => {
                        println!("replay [{} profile]: could not be judged ({}) - inconclusive", profile, m);
                        let _ = std::fs::remove_dir_all(&dir);
                        std::process::exit(2);
                    }
                    nfv::props::c01::ExecResult::Panic(m) | nfv::props::c01::ExecResult::Crash(m) => {
                        println!("replay [{} profile]: {}", profile, m);
                        bad = Some(m);
                    }
                }
            }
            let _ = std::fs::remove_dir_all(&dir);
            if bad.is_some() {
                println!("VIOLATION property={} replay={}", id, path);
                std::process::exit(1);
            }
            std::process::exit(0);
        }
        let o = nfv::engine::guarded(&def.oracle, &case);
        match o.verdict {
            Verdict::Pass => {
                println!("replay: PASS (known signatures hit: {:?})", o.known);
                std::process::exit(0);
            }
            Verdict::Violation(m) => {
                println!("replay: {}", m);
                println!("VIOLATION property={} replay={}", id, path);
                std::process::exit(1);
            }
            Verdict::Harness(m) => {
                println!("replay: harness error {}", m);
                std::process::exit(2);
            }
        }
    }
    let ctx = Ctx::new(&id, &tier, seed);
    // watchdog: a time budget hit is inconclusive, never a violation
    let budget: u64 = std::env::var("NFV_WATCHDOG_S")
        .ok()
        .and_then(|s| s.parse().ok())
        .unwrap_or(if tier == "thorough" { 8 * 3600 } else { 3600 });
    std::thread::spawn(move || {
        std::thread::sleep(std::time::Duration::from_secs(budget));
        println!("INCONCLUSIVE watchdog after {} s", budget);
        std::process::exit(2);
    });
    (def.run)(&ctx);
    let code = ctx.finish(def.rule, def.assumptions);
    std::process::exit(code);
}
