//! Crash-isolated executor for C01.
//!   worker exec FILE                      run one case; exit 0 pass, 1 panic, 77 capped
//!   worker run PHASE SEED SHARD CASES START CUR OUT
//!                                         proptest search; current case is written to CUR
//!                                         before it is executed so that the parent can
//!                                         recover it after an abort / stack overflow

use nfv::alloc::Counting;
use nfv::engine::{install_quiet_panic_hook, Case, Verdict};
use nfv::gen;
use nfv::props::c01;
use proptest::test_runner::{Config, RngSeed, TestCaseError, TestError, TestRunner};
use serde_json::json;
use std::collections::{BTreeMap, HashSet};
use std::io::{Seek, SeekFrom, Write};

#[global_allocator]
static A: Counting = Counting;

fn main() {
    let args: Vec<String> = std::env::args().collect();
    install_quiet_panic_hook();
    let cap: usize = std::env::var("NFV_LIVE_CAP_MB")
        .ok()
        .and_then(|s| s.parse().ok())
        .unwrap_or(2048);
    nfv::alloc::set_live_cap(cap << 20);
    match args.get(1).map(|s| s.as_str()) {
        Some("exec") => {
            let text = std::fs::read_to_string(&args[2]).expect("case file");
            let v: serde_json::Value = serde_json::from_str(&text).expect("json");
            let case = Case::from_json(&v).expect("case");
            let o = c01::exec_on_small_stack(&case);
            match o.verdict {
                Verdict::Pass => std::process::exit(0),
                Verdict::Violation(m) => {
                    println!("{}", m);
                    std::process::exit(1)
                }
                Verdict::Harness(m) => {
                    println!("{}", m);
                    std::process::exit(2)
                }
            }
        }
        Some("run") => run(&args[2..]),
        _ => {
            eprintln!("usage: worker exec FILE | worker run PHASE SEED SHARD CASES START CUR OUT");
            std::process::exit(2);
        }
    }
}

fn run(a: &[String]) {
    let phase = a[0].clone();
    let seed: u64 = a[1].parse().unwrap();
    let shard: u64 = a[2].parse().unwrap();
    let cases: u32 = a[3].parse().unwrap();
    let start: usize = a[4].parse().unwrap();
    let cur_path = a[5].clone();
    let out_path = a[6].clone();
    let strategy = match phase.as_str() {
        "hostile" => gen::hostile_case(),
        "stressmut" => c01::stress_mut_case(),
        _ => {
            let cfg = gen::StreamCfg::small(gen::Mix { fixed: 1, v9: 3, ipfix: 3 });
            gen::conformant_case(cfg, gen::BuildOpts::WIDE)
        }
    };
    let h = nfv::wire::fnv(&[&seed.to_be_bytes(), phase.as_bytes(), &shard.to_be_bytes(), b"c01"]);
    let cfg = Config {
        cases,
        failure_persistence: None,
        rng_seed: RngSeed::Fixed(h ^ (h >> 31)),
        max_shrink_iters: 3000,
        ..Config::default()
    };
    let cur = std::cell::RefCell::new(
        std::fs::OpenOptions::new()
            .create(true)
            .write(true)
            .truncate(true)
            .open(&cur_path)
            .expect("cur file"),
    );
    let mut runner = TestRunner::new(cfg);
    struct St {
        index: usize,
        failed: bool,
        evaluations: u64,
        nontrivial: HashSet<u64>,
        labels: BTreeMap<String, u64>,
        samples: Vec<serde_json::Value>,
    }
    let st = std::cell::RefCell::new(St {
        index: 0,
        failed: false,
        evaluations: 0,
        nontrivial: HashSet::new(),
        labels: BTreeMap::new(),
        samples: vec![],
    });
    let res = runner.run(&strategy, |case| {
        if st.borrow().failed {
            let o = c01::exec_on_small_stack(&case);
            return match o.verdict {
                Verdict::Violation(m) => Err(TestCaseError::fail(m)),
                _ => Ok(()),
            };
        }
        let i = st.borrow().index;
        st.borrow_mut().index += 1;
        if i < start {
            return Ok(());
        }
        let text = serde_json::to_string(&json!({"index": i, "case": case.to_json(usize::MAX)})).unwrap();
        {
            let mut cur = cur.borrow_mut();
            let _ = cur.seek(SeekFrom::Start(0));
            let _ = cur.write_all(text.as_bytes());
            let _ = cur.set_len(text.len() as u64);
        }
        let o = c01::exec_on_small_stack(&case);
        let mut s = st.borrow_mut();
        s.evaluations += 1;
        for l in &o.labels {
            *s.labels.entry(l.clone()).or_insert(0) += 1;
        }
        if o.nontrivial && s.nontrivial.insert(case.digest()) && s.samples.len() < 2 {
            let mut j = case.to_json(160);
            j["labels"] = json!(o.labels);
            s.samples.push(j);
        }
        match o.verdict {
            Verdict::Violation(m) => {
                s.failed = true;
                Err(TestCaseError::fail(m))
            }
            _ => Ok(()),
        }
    });
    let St { evaluations, nontrivial, labels, samples, .. } = st.into_inner();
    let failure = match res {
        Err(TestError::Fail(reason, case)) => {
            json!({"msg": reason.message().to_string(), "case": case.to_json(usize::MAX)})
        }
        _ => serde_json::Value::Null,
    };
    let out = json!({
        "evaluations": evaluations,
        "nontrivial": nontrivial.iter().collect::<Vec<_>>(),
        "labels": labels,
        "samples": samples,
        "failure": failure,
    });
    std::fs::write(&out_path, serde_json::to_string(&out).unwrap()).expect("out file");
    std::process::exit(0);
}
