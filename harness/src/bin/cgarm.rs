//! cgarm <family> <n>: run one C15 family instance (preloading calls, then the measured call)
//! so that `valgrind --tool=callgrind --toggle-collect=nfv_cg_measured` can count the
//! instructions of the measured parse_bytes call alone (C15, relation S5).
use netflow_parser::{NetflowPacket, NetflowParser};

#[no_mangle]
#[inline(never)]
pub fn nfv_cg_measured(p: &mut NetflowParser, buf: &[u8]) -> usize {
    let r: Vec<NetflowPacket> = p.parse_bytes(buf);
    let n = r.len();
    // dropping the result is part of the cost of having produced it
    drop(r);
    n
}

fn main() {
    let args: Vec<String> = std::env::args().collect();
    if args.len() < 3 {
        eprintln!("usage: cgarm <family> <n>");
        std::process::exit(2);
    }
    let n: usize = args[2].parse().unwrap_or(1);
    let Some((pre, buf)) = nfv::props::c15::family(&args[1], n) else {
        eprintln!("unknown family");
        std::process::exit(2);
    };
    let mut p = NetflowParser::default();
    if args[1].contains("all-versions-allowed") {
        p.allowed_versions = (0..=u16::MAX).collect();
    }
    for c in &pre {
        p.parse_bytes(c);
    }
    let k = nfv_cg_measured(&mut p, &buf);
    println!("elements={} buf={}", k, buf.len());
}
