//! mkcorpus <dir> [n]: write libFuzzer seed files for fuzz_history: the golden packets of the
//! repository's tests (corpus/golden.hex), the finding witnesses (corpus/kf/*.json) and n
//! generated conformant / hostile histories (seeded, deterministic).
use nfv::engine::Case;
use nfv::fuzzglue::encode;
use nfv::gen;
use proptest::strategy::{Strategy, ValueTree};
use proptest::test_runner::{Config, RngSeed, TestRunner};

fn main() {
    let mut args: Vec<String> = std::env::args().collect();
    if args.get(1).map(|s| s == "--plan").unwrap_or(false) {
        // seeds for fuzz_plan: the target decodes arbitrary bytes into a plan, so the seeds are
        // deterministic pseudo-random byte strings of several lengths
        args.remove(1);
        let dir = args.get(1).expect("dir").clone();
        let n: usize = args.get(2).and_then(|s| s.parse().ok()).unwrap_or(96);
        std::fs::create_dir_all(&dir).unwrap();
        let mut x: u64 = 0x9e37_79b9_7f4a_7c15;
        for i in 0..n {
            let len = [64usize, 256, 1024, 3000][i % 4];
            let mut b = Vec::with_capacity(len);
            while b.len() < len {
                x ^= x << 13;
                x ^= x >> 7;
                x ^= x << 17;
                b.extend_from_slice(&x.to_le_bytes());
            }
            std::fs::write(format!("{}/plan-{:04}", dir, i), b).unwrap();
        }
        println!("wrote {} plan seeds to {}", n, dir);
        return;
    }
    let dir = args.get(1).expect("dir").clone();
    let n: usize = args.get(2).and_then(|s| s.parse().ok()).unwrap_or(300);
    std::fs::create_dir_all(&dir).unwrap();
    let mut k = 0usize;
    let mut put = |c: &Case| {
        let b = encode(c);
        if b.len() <= 70000 {
            std::fs::write(format!("{}/seed-{:05}", dir, k), b).unwrap();
            k += 1;
        }
    };
    let golden = std::fs::read_to_string("/verif/corpus/golden.hex").unwrap_or_default();
    let bufs: Vec<Vec<u8>> = golden.lines().filter(|l| !l.starts_with('#') && !l.is_empty()).filter_map(nfv::wire::unhex).collect();
    for b in &bufs {
        put(&Case::single(b.clone()));
    }
    // golden packets as histories (template packet then data packet orders)
    for w in bufs.windows(2) {
        put(&Case::history(vec![w[0].clone(), w[1].clone()]));
    }
    if let Ok(rd) = std::fs::read_dir("/verif/corpus/kf") {
        let mut files: Vec<_> = rd.filter_map(|e| e.ok()).map(|e| e.path()).collect();
        files.sort();
        for f in files {
            if let Some(c) = std::fs::read_to_string(&f).ok().and_then(|t| serde_json::from_str::<serde_json::Value>(&t).ok()).and_then(|v| Case::from_json(&v)) {
                if c.total_bytes() < 60000 {
                    put(&c);
                }
            }
        }
    }
    let mut runner = TestRunner::new(Config { rng_seed: RngSeed::Fixed(0x5eed), failure_persistence: None, ..Config::default() });
    let cfg = gen::StreamCfg::small(gen::Mix { fixed: 1, v9: 3, ipfix: 3 });
    let conf = gen::conformant_case(cfg, gen::BuildOpts::WIDE);
    let host = gen::hostile_case();
    for i in 0..n {
        let c = if i % 2 == 0 { conf.new_tree(&mut runner).unwrap().current() } else { host.new_tree(&mut runner).unwrap().current() };
        put(&c);
    }
    println!("wrote {} seeds to {}", k, dir);
}
