//! Feature-off (or feature-on) arm of the C17 differential: `c17arm <K|U> <seed> <shard> <cases>`
fn main() {
    let a: Vec<String> = std::env::args().collect();
    if a.len() < 5 {
        eprintln!("usage: c17arm <K|U> <seed> <shard> <cases>");
        std::process::exit(2);
    }
    if a[1] == "dump" {
        nfv::props::c17::arm_dump(&a[2], a[3].parse().unwrap(), a[4].parse().unwrap(), a[5].parse().unwrap());
        return;
    }
    nfv::props::c17::arm_main(&a[1], a[2].parse().unwrap(), a[3].parse().unwrap(), a[4].parse().unwrap());
}
