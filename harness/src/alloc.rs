//! Counting global allocator. Installed by the binaries (`check`, `worker`), never by the
//! library under test. Per-thread counters (bytes requested - a growing realloc counts with
//! its full new size - and number of calls) for C15; a process-wide live-bytes cap for the
//! C01 workers.

use std::alloc::{GlobalAlloc, Layout, System};
use std::cell::Cell;
use std::sync::atomic::{AtomicUsize, Ordering};

pub struct Counting;

thread_local! {
    static BYTES: Cell<u64> = const { Cell::new(0) };
    static CALLS: Cell<u64> = const { Cell::new(0) };
    static LIVE: Cell<i64> = const { Cell::new(0) };
    static PEAK: Cell<i64> = const { Cell::new(0) };
}

static LIVE_GLOBAL: AtomicUsize = AtomicUsize::new(0);
static CAP: AtomicUsize = AtomicUsize::new(usize::MAX);

extern "C" {
    fn _exit(code: i32) -> !;
}

pub const EXIT_CAPPED: i32 = 77;

/// process exits with status 77 when live heap bytes exceed `bytes`
pub fn set_live_cap(bytes: usize) {
    CAP.store(bytes, Ordering::SeqCst);
}

#[inline]
fn note_alloc(n: usize) {
    let _ = BYTES.try_with(|b| b.set(b.get() + n as u64));
    let _ = CALLS.try_with(|c| c.set(c.get() + 1));
    let _ = LIVE.try_with(|l| {
        l.set(l.get() + n as i64);
        let _ = PEAK.try_with(|p| {
            if l.get() > p.get() {
                p.set(l.get())
            }
        });
    });
    // the process-wide counter is a contended cache line: only maintained when a cap is set
    let cap = CAP.load(Ordering::Relaxed);
    if cap != usize::MAX {
        let g = LIVE_GLOBAL.fetch_add(n, Ordering::Relaxed) + n;
        if g > cap {
            unsafe { _exit(EXIT_CAPPED) }
        }
    }
}
#[inline]
fn note_free(n: usize) {
    let _ = LIVE.try_with(|l| l.set(l.get() - n as i64));
    if CAP.load(Ordering::Relaxed) != usize::MAX {
        // saturating: frees of blocks allocated before the cap was set
        let _ = LIVE_GLOBAL.fetch_update(Ordering::Relaxed, Ordering::Relaxed, |v| Some(v.saturating_sub(n)));
    }
}

unsafe impl GlobalAlloc for Counting {
    unsafe fn alloc(&self, l: Layout) -> *mut u8 {
        note_alloc(l.size());
        System.alloc(l)
    }
    unsafe fn alloc_zeroed(&self, l: Layout) -> *mut u8 {
        note_alloc(l.size());
        System.alloc_zeroed(l)
    }
    unsafe fn dealloc(&self, p: *mut u8, l: Layout) {
        note_free(l.size());
        System.dealloc(p, l)
    }
    unsafe fn realloc(&self, p: *mut u8, l: Layout, new: usize) -> *mut u8 {
        if new > l.size() {
            // a growing realloc is charged with its full new size (it may copy the whole
            // block), not just the growth: amortised doubling still sums to ~2x the final
            // size, while a realloc per element shows up as the quadratic cost it can be
            note_alloc(new);
            note_free(l.size());
        } else {
            note_free(l.size() - new);
            let _ = CALLS.try_with(|c| c.set(c.get() + 1));
        }
        System.realloc(p, l, new)
    }
}

#[derive(Clone, Copy, Debug, Default)]
pub struct Snap {
    pub bytes: u64,
    pub calls: u64,
    pub live: i64,
}

pub fn snap() -> Snap {
    Snap {
        bytes: BYTES.with(|b| b.get()),
        calls: CALLS.with(|c| c.get()),
        live: LIVE.with(|l| l.get()),
    }
}

/// reset the per-thread peak to the current live value
pub fn reset_peak() {
    let l = LIVE.with(|l| l.get());
    PEAK.with(|p| p.set(l));
}
pub fn peak() -> i64 {
    PEAK.with(|p| p.get())
}

/// true when the counting allocator is the process' global allocator (self-check)
pub fn is_installed() -> bool {
    let a = snap();
    let v: Vec<u8> = Vec::with_capacity(4096);
    std::hint::black_box(&v);
    let b = snap();
    drop(v);
    b.bytes >= a.bytes + 4096
}
