#!/bin/bash
# try_patch.sh <patch.diff> <ID> [ID...]   - apply a patch to a scratch worktree of /repo (outside
# /repo and /verif), run the quick checks of the given properties against it, clean up.
# Output: one line per check: "<ID> exit=<code> <last line>".
set -u
PATCH="$(readlink -f "$1")"; shift
W=/tmp/mut-work; git -C /repo worktree remove --force "$W" >/dev/null 2>&1; rm -rf "$W"  # constant path: build artefacts are reused instead of piling up
git -C /repo worktree add --detach "$W" HEAD >/dev/null 2>&1 || { echo "cannot create worktree"; exit 2; }
if ! git -C "$W" apply "$PATCH"; then echo "patch does not apply"; git -C /repo worktree remove --force "$W"; exit 2; fi
export NFV_REPO="$W" NFV_TARGET="${MUT_TARGET:-/tmp/mut-target}"
for ID in "$@"; do
  OUT=$(cd /verif && timeout 1500 ./verif.sh check "$ID" quick 2>&1); CODE=$?
  echo "$ID exit=$CODE $(echo "$OUT" | grep -E 'VIOLATION|violation detail|^OK|INCONCLUSIVE' | head -2 | tr '\n' ' ' | cut -c1-400)"
done
git -C /repo worktree remove --force "$W"
rm -rf "$W"
