#!/usr/bin/env python3
"""mkcase.py OUT hexbuf [hexbuf...]  - write a single-parser history case file (default allowed set)."""
import json, sys
out = sys.argv[1]
calls = [{"parser": 0, "packets": [h]} for h in sys.argv[2:]]
json.dump({"allowed": [[5, 7, 9, 10]], "calls": calls, "params": {}}, open(out, "w"), indent=1)
