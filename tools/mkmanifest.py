#!/usr/bin/env python3
"""Regenerates /verif/MANIFEST.json from the table below (keeps it valid at all times)."""
import json, sys

# id -> (technique, level text, level note, design ref)
CLAIMED = {
 "C01": ("property-based testing in crash-isolated worker processes (proptest histories + deterministic stress family, 2 MiB thread per case, two build profiles)",
         "Generated search: hostile and conformant histories plus a depth/size stress family at the 64 KiB limit, each executed on a fresh 2 MiB thread in a worker subprocess (release and unoptimised builds), followed by re-export, common-view conversion and JSON serialisation of every element. A panic, abort or stack overflow on any explored case is a violation; absence is not shown.",
         "Trusts the OS process exit status and the allocator cap; non-termination only shows as a watchdog trip (exit 2, inconclusive).", "DESIGN.md §4 C01"),
 "C02": ("property-based testing (proptest, hostile + conformant histories) against a decomposition oracle",
         "Generated search over (allowed set, history of buffers); oracle recomputes each element's wire length from its own header, requires a left-to-right decomposition with at most one final error carrying exactly the unconsumed suffix, and a silent stop only in front of a disallowed version.",
         "Header count/length fields reported by the library are taken as the element's wire length; their correctness is checked by C03-C05.", "DESIGN.md §4 C02"),

 "C03": ("property-based testing (proptest) + exhaustive sub-enumerations against an independent offset-table decoder",
         "Generated V5/V7 packets (raw-byte headers and records, counts up to the datagram limit in the thorough tier, chained, with trailing bytes or cut short) compared field by field with a hand-transcribed Cisco offset table; all 256 protocol numbers x 2 versions and every truncation point of sample packets are enumerated exhaustively in every run.",
         "The IANA keyword table and the Cisco offsets were transcribed by hand into the harness.", "DESIGN.md §4 C03"),
 "C04": ("property-based testing (proptest plans -> conformant V9 streams) against an independent RFC 3954 reference decoder with template-cache model",
         "Generated conformant V9 histories (template pools, redefinitions, multi-template flowsets, options templates/data, all supported widths, padding 0..3) decoded by the library and by an independent reference decoder over the same bytes; every header, template record, record value (in the library-assigned type) and padding byte compared in both directions, cache compared with the model after every call.",
         "Field number -> data type comes from the library's public lookup tables (pinned by the suite's snapshots); conformant envelope as stated in DESIGN §3.2.", "DESIGN.md §4 C04"),
 "C05": ("property-based testing (proptest plans -> conformant IPFIX streams) against an independent RFC 7011 reference decoder with template-cache model",
         "Generated conformant IPFIX histories (enterprise elements, variable-length elements in both length forms, zero-length elements, options templates with scope counts, differing record sizes) decoded by the library and by an independent reference decoder; every header, template record, flat (index, element, value) sequence, padding and the set count compared, cache compared with the model after every call.",
         "Element -> data type comes from the library's public lookup tables; conformant envelope as stated in DESIGN §3.2 (one or more records per data set, padding shorter than the shortest record).", "DESIGN.md §4 C05"),
 "C08": ("property-based testing (proptest) with a round-trip oracle in both directions",
         "Generated V5/V7 packets: every element the library returns must re-export to exactly its input span; and structures built through the public fields from an independent offset-table decode must export to the original bytes, re-parse to an equal structure with no remainder, and export again identically.",
         "Spans come from the C02 decomposition; structures for the reverse direction are built from the harness' own offset table.", "DESIGN.md §4 C08"),

 "C09": ("property-based testing (proptest: conformant lossless / wide streams + hostile histories) with a re-export round-trip oracle and field-level attribution",
         "For every V9 element the library returns, to_be_bytes must be Ok and equal the element's input span. The harness predicts the export from the input bytes and substitutes the library's own value export only for value kinds named by an open finding; the export must equal the prediction byte for byte, so anything not explained (padding, header order, widths) is a violation. A strict phase using only losslessly exportable kinds must be completely clean.",
         "Spans from the C02 decomposition; the template in effect is reconstructed from the template records the library itself reported.", "DESIGN.md §4 C09"),
 "C10": ("property-based testing (proptest: conformant lossless / wide streams + hostile histories) with a re-export round-trip oracle and field-level attribution",
         "For every IPFIX element with header.length >= 16, to_be_bytes must be Ok and equal the header.length input bytes; prediction/attribution as for C09 with the IPFIX-specific findings (variable-length prefix, signed widths, omitted sets). Strict phase (fixed-length lossless kinds incl. enterprise elements) must be completely clean.",
         "Spans from the C02 decomposition; messages with length < 16 are outside 'accepted messages' and only covered by C01.", "DESIGN.md §4 C10"),

 "C11": ("property-based testing (proptest) with a metamorphic oracle: every partition of a packet sequence into calls",
         "Generated sequences of self-delimiting packets of all four versions with cross-packet template dependencies; for every partition into consecutive calls (all 2^(n-1) up to n = 8, 64 sampled beyond, sequences up to several hundred packets) the concatenated results and the final caches must equal the one-packet-per-call run.",
         "Equality of results is taken over their complete Debug rendering plus cache contents.", "DESIGN.md §4 C11"),
 "C12": ("property-based testing (proptest) with a differential oracle against an all-versions twin parser, all 32 allowed-set configurations per case",
         "Generated chained buffers over {5,7,9,10} and unknown version numbers; for each of the 16 subsets of {5,7,9,10}, with and without extra numbers, every call's result must equal the all-allowing twin's leading elements up to the first filtered version, the caches must equal those of a parser fed only the bytes before it, and an allowed unsupported version must yield an UnknownVersion error.",
         "The twin starts from a copy of the four public cache maps; element offsets come from the C02 decomposition.", "DESIGN.md §4 C12"),

 "C06": ("stateful property-based testing (proptest operation sequences over two parser instances) against a template-cache model, with partition and isolation re-execution",
         "Generated operation sequences Feed(parser, buffer) over two parsers with independent allowed sets and a shared id pool: after every call the public cache maps of both parsers must equal the per-parser model (latest wins, never evicts, untouched by V5/V7, data, disallowed versions, truncated templates); every decodable data set must equal the reference decode under the model's template; every partition of each parser's stream into calls must give identical results and caches; a fresh parser fed only one parser's stream must end in the same state.",
         "What a failing V9 packet may still teach: the complete template flowsets before the failing flowset. Cases whose data has no conformant reading under the receiving parser's own (older) definition are skipped and counted.", "DESIGN.md §4 C06"),
 "C07": ("property-based testing (proptest histories with a withheld template, two parser instances, replay after late delivery) against reference decoder + cache model",
         "Generated conformant histories in which every template record of one (protocol, id) is withheld while its data is still sent at arbitrary positions; the template is then given to another parser instance only, later to the first parser, and the same data bytes are replayed. A V9 packet with such data must be the final Error; an IPFIX message must contain no set of that id; caches must equal the model after every call; everything else must equal the reference decode; after delivery the replayed bytes must decode to the reference records.",
         "For IPFIX both 'decoding stops at the unknown set' and 'only that set is skipped' count as omitting the set.", "DESIGN.md §4 C07"),

 "C13": ("property-based testing (proptest: templates over the ten projected elements) against a projection computed from an independent reference decode",
         "Generated V5/V7 packets and conformant V9/IPFIX histories whose templates hold random subsets/orders of the projected elements (IPv4 or IPv6 variants) mixed with unrelated fields: as_netflow_common must give the right version, timestamp, one flow per data record in order and every member equal to the value derived from the wire bytes (None iff the template lacks the element); Error elements must convert to Err; parse_bytes_as_netflow_common_flowsets must equal the in-order concatenation.",
         "Projected elements use their natural widths and occur at most once per template.", "DESIGN.md §4 C13"),
 "C14": ("property-based testing (proptest valid packets) with exhaustive enumeration of every cut point per generated packet",
         "For generated valid packets of every version (templates pre-loaded, 0..2 valid packets in front), every interior cut point (V9: all but flowset boundaries) is executed: the result must be the preceding packets unchanged plus exactly one Error carrying the truncated bytes, and the caches must be unchanged (V9: changed only by the complete template flowsets before the cut).",
         "The untruncated buffer must itself parse cleanly (checked per case).", "DESIGN.md §4 C14"),

 "C15": ("property-based testing with a counting global allocator and callgrind instruction counts as cost instruments: size-parameterised families, metamorphic doubling and cache-size relations, random hostile/conformant histories",
         "Allocation traffic (bytes and calls on the calling thread) and deep result size are measured around every parse_bytes call: S1 alloc <= K0 + K1*|buf| + K2*result, S2 result <= K0 + K3*(|buf| + cached template wire size), S3 cost(2n) <= 2.5*cost(n) + K0 over doubling pairs of every family up to the 64 KiB limit (chains of minimal packets, minimal sets/flowsets under small and 1000-field templates, 1-byte records, n-field templates, failing-record retry, hostile count/length headers over short bodies, packets against a cache of 6000 templates), plus 2e5 random histories. CPU work: instructions executed inside the measured call (valgrind --tool=callgrind on a helper binary): S5 instructions(n) <= 6*instructions(n/4) + 3e6 per family, S6 a 500-set packet against the 6000-template cache <= 2x the same packet against a 500-template cache + 5e5.",
         "Constants K1..K3 are calibrated on the unchanged tree (2.8-4x the observed maximum, recorded in the source); cost is allocator traffic and instruction counts, never a clock; S5/S6 are skipped (and reported as skipped in the evidence) if valgrind is unavailable.", "DESIGN.md §4 C15"),
 "C16": ("property-based testing (proptest conformant + hostile histories) against an independent JSON reader and a harness-built expected tree",
         "For every result: streaming serialisation (to_string / to_writer) succeeds and agrees; the text parses with the harness' own RFC 8259 reader; serialising twice and serialising a second parser instance's results give identical text; an expected tree built from the Rust values (variant names via Debug, integers incl. u128 as decimal text, addresses via Display, strings verbatim, record keys in field order) equals the parsed JSON member by member.",
         "Non-finite floats serialise to null (serde_json's documented behaviour) and are accepted as faithful.", "DESIGN.md §4 C16"),
 "C17": ("cross-build differential property-based testing: the harness is built with and without parse_unknown_fields, both arms generate the same seeded cases",
         "A failing feature-off build is itself the violation. Known-only templates: per-case digests of results, re-export and common view must be identical in both builds, and both builds must equal the independent reference decode. Templates with an untyped field: the feature-off build must report no record for them and keep cache = model; the feature-on build must equal the reference decode.",
         "Both arms use the same proptest version and seeds; untyped fields are forced into plain templates and IPFIX options templates (V9 options data is raw bytes in both configurations).", "DESIGN.md §4 C17"),
}
NOT_YET = {}

def main():
    props = [json.loads(l) for l in open('/verif/properties.jsonl')]
    checks = []
    na = []
    for p in props:
        i = p['id']
        if i in CLAIMED:
            tech, text, note, ref = CLAIMED[i]
            if i in ("C01", "C02", "C03", "C08", "C12", "C15"):
                tech += "; thorough tier adds coverage-guided fuzzing (libFuzzer target fuzz_history: raw histories, this property's oracle in-target)"
            elif i in ("C09", "C10", "C16"):
                tech += "; thorough tier adds coverage-guided fuzzing (libFuzzer targets fuzz_history and fuzz_plan with this property's oracle in-target)"
            elif i in ("C04", "C05", "C06", "C07", "C11", "C13", "C14"):
                tech += "; thorough tier adds coverage-guided fuzzing (libFuzzer target fuzz_plan: bytes decoded into a conformant stream plan, this property's oracle in-target)"
            checks.append({
                "property_id": i,
                "quick_cmd": f"./verif.sh check {i} quick",
                "thorough_cmd": f"./verif.sh check {i} thorough",
                "evidence_file": f"/verif/evidence/{i}.json",
                "replay_cmd_template": f"./verif.sh replay {i} {{path}}",
                "engine": "nfv-harness",
                "level_claimed": {"category": "exploration", "text": text, "design_ref": ref},
                "level_note": note,
                "technique": tech,
            })
        else:
            na.append({"property_id": i, "reason": NOT_YET.get(i, "check not built yet in this revision of /verif (planned with property-based testing, see DESIGN.md §4); not claimed until its check exists and is silent on the unchanged tree")})
    m = {
        "version": 1,
        "setup_cmd": "./verif.sh setup",
        "hooks": {
            "guard": "netflow_parser_verif",
            "enable": "none needed: every property is observable through the public API; checks build /repo unmodified (RUSTFLAGS unchanged)",
            "baseline_off_cmd": "cd /repo && cargo test --workspace --no-fail-fast --offline",
            "source_commits": [],
            "add_only": True,
        },
        "engines": [{
            "name": "nfv-harness",
            "path": "/verif/harness",
            "serves_properties": sorted(CLAIMED.keys()),
            "kind_free_text": "Rust crate path-depending on /repo: proptest strategies (plans -> bytes), independent reference decoders, per-property oracles, sharded runner with shrinking/replay/evidence, worker subprocesses for C01, counting allocator for C15",
        }],
        "checks": checks,
        "not_applicable": na,
        "notes": "All checks rebuild the harness against /repo's working tree via cargo (path dependency). Exit 0 held / 1 violation / 2 inconclusive. Known findings: /verif/KNOWN_FINDINGS.txt.",
    }
    json.dump(m, open('/verif/MANIFEST.json', 'w'), indent=1)
    print("claimed:", sorted(CLAIMED.keys()), "not claimed:", [x['property_id'] for x in na])

main()
