#!/usr/bin/env python3
"""Regenerates /verif/MANIFEST.json from the table below (keeps it valid at all times)."""
import json, sys

# id -> (technique, level text, level note, design ref)
CLAIMED = {
 "C01": ("property-based testing in crash-isolated worker processes (proptest histories + deterministic stress family, 2 MiB thread per case, two build profiles)",
         "Generated search: hostile and conformant histories plus a depth/size stress family at the 64 KiB limit, each executed on a fresh 2 MiB thread in a worker subprocess (release and unoptimised builds), followed by re-export, common-view conversion and JSON serialisation of every element. A panic, abort or stack overflow on any explored case is a violation; absence is not shown.",
         "Trusts the OS process exit status and the allocator cap; non-termination only shows as a watchdog trip (exit 2, inconclusive).", "DESIGN.md §4 C01"),
 "C02": ("property-based testing (proptest, hostile + conformant histories) against a decomposition oracle",
         "Generated search over (allowed set, history of buffers); oracle recomputes each element's wire length from its own header, requires a left-to-right decomposition with at most one final error carrying exactly the unconsumed suffix, and a silent stop only in front of a disallowed version.",
         "Header count/length fields reported by the library are taken as the element's wire length; their correctness is checked by C03-C05.", "DESIGN.md §4 C02"),
}
NOT_YET = {}

def main():
    props = [json.loads(l) for l in open('/verif/properties.jsonl')]
    checks = []
    na = []
    for p in props:
        i = p['id']
        if i in CLAIMED:
            tech, text, note, ref = CLAIMED[i]
            checks.append({
                "property_id": i,
                "quick_cmd": f"./verif.sh check {i} quick",
                "thorough_cmd": f"./verif.sh check {i} thorough",
                "evidence_file": f"/verif/evidence/{i}.json",
                "replay_cmd_template": f"./verif.sh replay {i} {{path}}",
                "engine": "nfv-harness",
                "level_claimed": {"category": "exploration", "text": text, "design_ref": ref},
                "level_note": note,
                "technique": tech,
            })
        else:
            na.append({"property_id": i, "reason": NOT_YET.get(i, "check not built yet in this revision of /verif (planned with property-based testing, see DESIGN.md §4); not claimed until its check exists and is silent on the unchanged tree")})
    m = {
        "version": 1,
        "setup_cmd": "./verif.sh setup",
        "hooks": {
            "guard": "netflow_parser_verif",
            "enable": "none needed: every property is observable through the public API; checks build /repo unmodified (RUSTFLAGS unchanged)",
            "baseline_off_cmd": "cd /repo && cargo test --workspace --no-fail-fast --offline",
            "source_commits": [],
            "add_only": True,
        },
        "engines": [{
            "name": "nfv-harness",
            "path": "/verif/harness",
            "serves_properties": sorted(CLAIMED.keys()),
            "kind_free_text": "Rust crate path-depending on /repo: proptest strategies (plans -> bytes), independent reference decoders, per-property oracles, sharded runner with shrinking/replay/evidence, worker subprocesses for C01, counting allocator for C15",
        }],
        "checks": checks,
        "not_applicable": na,
        "notes": "All checks rebuild the harness against /repo's working tree via cargo (path dependency). Exit 0 held / 1 violation / 2 inconclusive. Known findings: /verif/KNOWN_FINDINGS.txt.",
    }
    json.dump(m, open('/verif/MANIFEST.json', 'w'), indent=1)
    print("claimed:", sorted(CLAIMED.keys()), "not claimed:", [x['property_id'] for x in na])

main()
