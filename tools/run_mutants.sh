#!/bin/bash
# run_mutants.sh <list-file>   lines: "<mutant-name> <ID> [ID...]"
# For each mutant: scratch worktree, apply, run the repository's own tests (must pass), then the
# named quick checks. Appends to /verif/mutants/RESULTS.txt.
set -u
LIST="$1"
export CARGO_NET_OFFLINE=true
while read -r NAME IDS; do
  [ -z "$NAME" ] && continue
  W=/tmp/mut-work; git -C /repo worktree remove --force "$W" >/dev/null 2>&1; rm -rf "$W"
  git -C /repo worktree add --detach "$W" HEAD >/dev/null 2>&1 || { echo "$NAME: cannot create worktree"; continue; }
  if ! git -C "$W" apply "/verif/mutants/$NAME.diff" 2>/dev/null; then echo "$NAME: patch does not apply" | tee -a /verif/mutants/RESULTS.txt; git -C /repo worktree remove --force "$W"; continue; fi
  T=$(cd "$W" && CARGO_TARGET_DIR=/tmp/mut-test-target cargo test --offline 2>&1 | grep -E "^test result" | head -1)
  case "$T" in *" 0 failed"*) TESTS=pass;; *) TESTS="FAIL($T)";; esac
  LINE="$NAME repo-tests=$TESTS"
  if [ "$TESTS" = pass ]; then
    for ID in $IDS; do
      S=$(date +%s)
      OUT=$(cd /verif && NFV_REPO="$W" NFV_TARGET=/tmp/mut-target timeout 1500 ./verif.sh check "$ID" quick 2>&1); CODE=$?
      E=$(( $(date +%s) - S ))
      LINE="$LINE | $ID exit=$CODE ${E}s"
      [ $CODE -eq 1 ] && LINE="$LINE [$(echo "$OUT" | grep 'violation detail' | head -1 | cut -c19-200)]"
      [ $CODE -eq 2 ] && LINE="$LINE [$(echo "$OUT" | grep -E 'INCONCLUSIVE|error' | head -1 | cut -c1-200)]"
    done
  fi
  echo "$LINE" | tee -a /verif/mutants/RESULTS.txt
  git -C /repo worktree remove --force "$W"; rm -rf "$W"
done < "$LIST"
