#!/bin/bash
# fuzz_phase.sh <ID> <runs-per-worker> [workers] [target]
# Coverage-guided campaign (libFuzzer via cargo-fuzz) with the oracle of property <ID> inside the
# target. target = fuzz_history (default: raw histories, buffers verbatim) or fuzz_plan (bytes are
# decoded into a conformant stream plan). Each worker gets its own fresh corpus copy and its own seed
# derived from VERIF_SEED. Appends a phase record to /verif/evidence/<ID>.json.
# Exit 0 = no violation, 1 = violation (VIOLATION line printed), 2 = inconclusive.
set -u
ID="$1"; RUNS="$2"; WORKERS="${3:-16}"; FT="${4:-fuzz_history}"
SEED="${VERIF_SEED:-0}"
export CARGO_NET_OFFLINE=true
TARGET="${NFV_TARGET:-/verif/target}"
cd /verif/harness || exit 2
if [ -n "${NFV_REPO:-}" ]; then
  echo "INCONCLUSIVE: fuzz phase does not support NFV_REPO"; exit 2
fi
cargo +nightly fuzz build -s none "$FT" >"$TARGET/fuzz-build.log" 2>&1 || { echo "INCONCLUSIVE: fuzz target build failed"; tail -20 "$TARGET/fuzz-build.log"; exit 2; }
BIN=/verif/target/x86_64-unknown-linux-gnu/release/$FT
[ -x "$BIN" ] || { echo "INCONCLUSIVE: $BIN missing"; exit 2; }
WORK="$TARGET/fuzz-run-$ID-$FT"; rm -rf "$WORK"; mkdir -p "$WORK"
if [ "$FT" = fuzz_plan ]; then
  "$TARGET/release/mkcorpus" --plan "$WORK/seeds" 96 >/dev/null || { echo "INCONCLUSIVE: mkcorpus failed"; exit 2; }
else
  "$TARGET/release/mkcorpus" "$WORK/seeds" 400 >/dev/null || { echo "INCONCLUSIVE: mkcorpus failed"; exit 2; }
  # small seeds only: the campaign works below 4 KiB (large inputs are the stress family's job)
  find "$WORK/seeds" -type f -size +4k -delete
fi
START=$(date +%s)
PIDS=()
for i in $(seq 1 "$WORKERS"); do
  mkdir -p "$WORK/c$i" "$WORK/a$i"; cp "$WORK/seeds"/* "$WORK/c$i/"
  ( cd "$WORK" && NFV_FUZZ_PROPS="$ID" "$BIN" "$WORK/c$i" -runs="$RUNS" -seed=$(( SEED * 1000 + i )) -max_len=4096 -len_control=0 \
      -timeout=900 -rss_limit_mb=6144 -artifact_prefix="$WORK/a$i/" -print_final_stats=1 >"$WORK/log$i.txt" 2>&1; echo "exit=$?" >>"$WORK/log$i.txt" ) &
  PIDS+=($!)
done
wait "${PIDS[@]}"
END=$(date +%s)
VIOL=$(grep -h "^VIOLATION property=" "$WORK"/log*.txt | head -1)
DETAIL=$(grep -h "^violation detail" "$WORK"/log*.txt | head -1)
BAD=$(grep -L "^exit=0" "$WORK"/log*.txt | wc -l)
python3 - "$ID" "$WORK" "$RUNS" "$WORKERS" "$((END-START))" "$SEED" "$FT" <<'PY'
import json, sys, glob, re, os
pid, work, runs, workers, wall, seed, tgt = sys.argv[1:8]
execs = cov = ft = 0
for f in glob.glob(work + '/log*.txt'):
    t = open(f, errors='replace').read()
    m = re.search(r'stat::number_of_executed_units:\s+(\d+)', t)
    if m: execs += int(m.group(1))
    for m in re.finditer(r'cov: (\d+) ft: (\d+)', t):
        cov = max(cov, int(m.group(1))); ft = max(ft, int(m.group(2)))
path = (os.environ.get('NFV_OUT_DIR') or '/verif') + f'/evidence/{pid}.json'
try:
    e = json.load(open(path))
except Exception:
    sys.exit(0)
e['coverage'].setdefault('phases', []).append({
    'phase': 'libFuzzer campaign (cargo-fuzz target ' + tgt + ', oracle of ' + pid + ' in-target)',
    'kind': 'coverage-guided fuzzing', 'workers': int(workers), 'runs_per_worker': int(runs),
    'executions': execs, 'max_cov_edges': cov, 'max_features': ft, 'seed_base': int(seed) * 1000,
    'max_len': 4096, 'wall_s': int(wall)})
e['coverage']['evaluations'] = e['coverage'].get('evaluations', 0) + execs
json.dump(e, open(path, 'w'), indent=1)
print(f"fuzz phase {pid} ({tgt}): {execs} executions, cov {cov}, features {ft}, {wall}s")
PY
if [ -n "$VIOL" ]; then
  echo "$DETAIL"; echo "$VIOL"
  python3 - "$ID" <<'PY'
import json, sys, os
p = (os.environ.get('NFV_OUT_DIR') or '/verif') + f'/evidence/{sys.argv[1]}.json'
try:
    e = json.load(open(p)); e['violations'] = 1; json.dump(e, open(p, 'w'), indent=1)
except Exception: pass
PY
  rm -rf "$WORK"; exit 1
fi
if [ "$BAD" -gt 0 ]; then
  echo "INCONCLUSIVE: $BAD fuzz worker(s) ended abnormally without a violation (timeout / memory limit / harness error); logs in $WORK"
  grep -h -E "ERROR: libFuzzer|harness error|SUMMARY" "$WORK"/log*.txt | head -5
  exit 2
fi
rm -rf "$WORK"
exit 0
