#!/bin/bash
# take_seed.sh <seed-dir-name e.g. C09> <label e.g. C09-a> <check IDs...>
# Confirms a sub-agent's seeded change in a fresh scratch worktree (existing tests pass with it,
# demo fails with it, demo passes without it), stores it under /verif/seeded/<label>/, runs the named
# quick checks against it and records everything in meta.json. Removes the scratch worktrees.
set -u
SRC=/tmp/seed-$1/SEED; LABEL=$2; shift 2
export CARGO_NET_OFFLINE=true
D=/verif/seeded/$LABEL; mkdir -p "$D"
cp "$SRC/patch.diff" "$D/patch.diff"; cp "$SRC/seed_demo.rs" "$D/seed_demo.rs"; cp "$SRC/meta.json" "$D/agent_meta.json" 2>/dev/null
W=/tmp/take-work; git -C /repo worktree remove --force "$W" >/dev/null 2>&1; rm -rf "$W"  # constant path: build artefacts are reused instead of piling up
git -C /repo worktree add --detach "$W" HEAD >/dev/null 2>&1
mkdir -p "$W/tests"; cp "$D/seed_demo.rs" "$W/tests/seed_demo.rs"
export CARGO_TARGET_DIR=/tmp/take-target
A=$(cd "$W" && cargo test --offline ${DEMO_FLAGS:-} --test seed_demo 2>&1 | grep -E "^test result" | head -1)
git -C "$W" apply "$D/patch.diff" || { echo "patch does not apply"; exit 2; }
B=$(cd "$W" && cargo test --offline ${DEMO_FLAGS:-} --test seed_demo 2>&1 | grep -E "^test result" | head -1)
rm "$W/tests/seed_demo.rs"
C=$(cd "$W" && cargo test --offline 2>&1 | grep -E "^test result" | head -1)
echo "demo without change: $A"; echo "demo with change:    $B"; echo "existing tests with change: $C"
unset CARGO_TARGET_DIR
RES=""
for ID in "$@"; do
  S=$(date +%s)
  OUT=$(cd /verif && NFV_REPO="$W" NFV_TARGET=/tmp/mut-target timeout 1800 ./verif.sh check "$ID" quick 2>&1); CODE=$?
  E=$(( $(date +%s) - S ))
  DET=$(echo "$OUT" | grep 'violation detail' | head -1 | cut -c19-300)
  echo "check $ID: exit=$CODE in ${E}s $DET"
  RES="$RES{\"check\":\"$ID\",\"exit\":$CODE,\"seconds\":$E,\"detail\":$(python3 -c 'import json,sys; print(json.dumps(sys.argv[1]))' "$DET")},"
done
python3 - "$D" "$A" "$B" "$C" "[${RES%,}]" <<'PY'
import json, sys, os
d, a, b, c, res = sys.argv[1:6]
am = {}
try: am = json.load(open(d + '/agent_meta.json'))
except Exception: pass
meta = {
  "property": am.get("property", os.path.basename(d).split('-')[0]),
  "summary": am.get("summary", ""),
  "needs_to_manifest": am.get("needs", ""),
  "confirmed": {"demo_without_change": a, "demo_with_change": b, "existing_tests_with_change": c},
  "checks_run_against_it": json.loads(res),
  "how": "fresh scratch worktree of /repo under /tmp; patch applied with git apply; ./verif.sh check <ID> quick with NFV_REPO pointing at the patched worktree; worktree removed afterwards",
}
json.dump(meta, open(d + '/meta.json', 'w'), indent=1)
PY
rm -f "$D/agent_meta.json"
git -C /repo worktree remove --force "$W"; rm -rf "$W"
