#!/usr/bin/env python3
"""mkmutant.py NAME FILE OLD NEW [FILE OLD NEW ...] - write /verif/mutants/NAME.diff replacing the
(unique) occurrence of OLD by NEW in /repo/FILE (relative path). /repo itself is not modified."""
import sys, difflib, os
name = sys.argv[1]
args = sys.argv[2:]
out = []
for i in range(0, len(args), 3):
    f, old, new = args[i], args[i+1], args[i+2]
    s = open('/repo/' + f).read()
    if s.count(old) != 1:
        sys.exit(f"{name}: pattern occurs {s.count(old)} times in {f}")
    t = s.replace(old, new)
    d = difflib.unified_diff(s.splitlines(True), t.splitlines(True), 'a/' + f, 'b/' + f)
    out.append(''.join(d))
open(f'/verif/mutants/{name}.diff', 'w').write(''.join(out))
print("wrote", name)
