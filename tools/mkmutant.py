#!/usr/bin/env python3
"""mkmutant.py NAME FILE OLD NEW [FILE OLD NEW ...] - write /verif/mutants/NAME.diff replacing the
(unique) occurrence of OLD by NEW in /repo/FILE (relative path); several triples may name the same
file. /repo itself is not modified."""
import sys, difflib
name = sys.argv[1]
args = sys.argv[2:]
if len(args) % 3:
    sys.exit(f"{name}: arguments must be FILE OLD NEW triples")
texts = {}
for i in range(0, len(args), 3):
    f, old, new = args[i], args[i+1], args[i+2]
    t = texts.get(f) or open('/repo/' + f).read()
    if t.count(old) != 1:
        sys.exit(f"{name}: pattern occurs {t.count(old)} times in {f}")
    texts[f] = t.replace(old, new)
out = []
for f, t in texts.items():
    s = open('/repo/' + f).read()
    out.append(''.join(difflib.unified_diff(s.splitlines(True), t.splitlines(True), 'a/' + f, 'b/' + f)))
open(f'/verif/mutants/{name}.diff', 'w').write(''.join(out))
print("wrote", name)
