#!/usr/bin/env python3
"""Systematic mutation sweep (sensitivity of the checks).

mutsweep.py list                      -> print the mutants (id, file, line, operator, before -> after)
mutsweep.py run <worker> <nworkers>   -> process every mutant with index % nworkers == worker:
    scratch worktree under /tmp (one per worker, reset between mutants), apply the one-line edit,
    run the repository's own tests (a mutant they kill is not interesting), otherwise run the quick
    checks relevant to the file until one reports a violation. Results are appended to
    /verif/mutants/SWEEP.jsonl (one JSON object per mutant).
Nothing is ever written to /repo; /verif is only read (and SWEEP.jsonl appended).
"""
import json, os, re, subprocess, sys, time, hashlib

REPO = '/repo'
FILES = {
    'src/lib.rs': 'C02 C11 C12 C06 C14 C15 C13 C01',
    'src/variable_versions/v9.rs': 'C04 C09 C06 C07 C14 C02 C11 C13 C15 C16 C01',
    'src/variable_versions/ipfix.rs': 'C05 C10 C06 C07 C14 C02 C11 C13 C15 C16 C01',
    'src/variable_versions/data_number.rs': 'C04 C05 C09 C10 C13 C16 C17 C01',
    'src/netflow_common.rs': 'C13 C01',
    'src/static_versions/v5.rs': 'C03 C08 C13 C02 C14 C15',
    'src/static_versions/v7.rs': 'C03 C08 C13 C02 C14 C15',
    'src/protocol.rs': 'C03 C13 C04 C09',
}

REL = [(' <= ', ' < '), (' < ', ' <= '), (' >= ', ' > '), (' > ', ' >= '), (' == ', ' != '), (' != ', ' == ')]


def code_lines(path):
    """(lineno, text) of non-test, non-comment lines"""
    out = []
    lines = open(os.path.join(REPO, path)).read().split('\n')
    for i, l in enumerate(lines):
        if l.strip().startswith('#[cfg(test)]'):
            break
        s = l.strip()
        if not s or s.startswith('//'):
            continue
        if s.startswith('#[') and not s.startswith('#[nom'):
            continue
        out.append((i, l))
    return out, lines


def mutants_for(path):
    cl, lines = code_lines(path)
    res = []

    def add(i, new, op):
        if new != lines[i]:
            res.append((path, i, op, lines[i], new))

    in_table = False
    for idx, (i, l) in enumerate(cl):
        s = l.strip()
        # big lookup tables (match arms "N => X,") are pinned by snapshot tests: sample sparsely
        is_arm = re.match(r'^\d+ => ', s) or re.match(r'^[A-Z][A-Za-z0-9]* = \d+,$', s) or re.match(r'^ProtocolTypes::\w+ => \d+,$', s)
        if is_arm:
            if (i % 37) != 0:
                continue
        # relational operators (not generics: require surrounding spaces)
        for a, b in REL:
            if a in l and '=>' not in l.split(a)[0][-3:]:
                add(i, l.replace(a, b, 1), 'rel' + a.strip() + '->' + b.strip())
        if ' && ' in l:
            add(i, l.replace(' && ', ' || ', 1), '&&->||')
        if ' || ' in l:
            add(i, l.replace(' || ', ' && ', 1), '||->&&')
        # integer literals
        for m in re.finditer(r'(?<![\w.])(\d+)(?:_usize|_u16|u16|usize)?(?![\w.])', l):
            v = int(m.group(1))
            if v > 70000 or 'version' in l and v in (5, 7, 9, 10) and 'Value' in l:
                continue
            if is_arm and m.start() > l.find('=>') >= 0:
                pass
            for nv in ({v + 1, max(v - 1, 0)} - {v}):
                add(i, l[:m.start(1)] + str(nv) + l[m.end(1):], f'const {v}->{nv}')
        # saturating / wrapping arithmetic and plain operators
        for a, b in [('saturating_sub', 'saturating_add'), ('saturating_add', 'saturating_sub'), ('checked_sub', 'checked_add'),
                     ('.min(', '.max('), ('.max(', '.min('), (' + ', ' - '), (' - ', ' + '), (' * ', ' + '), (' / ', ' * '), (' % ', ' / '),
                     ('is_some()', 'is_none()'), ('is_none()', 'is_some()'), ('is_empty()', 'len() == 1'), ('.iter().any(', '.iter().all('),
                     ('true', 'false'), ('false', 'true'), ('be_u', 'le_u'), ('to_be_bytes', 'to_le_bytes'), ('unwrap_or_default()', 'unwrap()'),
                     ('.first()', '.last()'), ('next_back()', 'next()')]:
            if a in l:
                add(i, l.replace(a, b, 1), f'{a.strip()}->{b.strip()}')
        # source/destination, first/last mix-ups in the common-view projection
        if path.endswith('netflow_common.rs'):
            for a, b in [('Src', 'Dst'), ('Dst', 'Src'), ('Source', 'Destination'), ('Destination', 'Source'), ('First', 'Last'), ('Last', 'First'),
                         ('Start', 'End'), ('End', 'Start'), ('src_', 'dst_'), ('dst_', 'src_'), ('first', 'last'), ('Ipv4', 'Ipv6'), ('Ipv6', 'Ipv4'),
                         ('sys_up_time', 'unix_secs'), ('export_time', 'sequence_number'), ('set.first', 'set.last'), ('set.last', 'set.first')]:
                if a in l and ('value_map' in l or 'set.' in l or 'header.' in l or '&V9Field' in l or '&IPFixField' in l):
                    add(i, l.replace(a, b, 1), f'{a}->{b}')
        # statement deletion: simple call statements
        if re.match(r'^\s*[a-z_][\w.]*\.(extend_from_slice|push|insert|remove|extend|append|truncate|clear)\(.*\);\s*$', l) or \
           re.match(r'^\s*(remaining|packet|input|i) = .*;\s*$', l):
            add(i, re.sub(r'\S.*$', '// (deleted)', l), 'delete-stmt')
        # swap with the next code line when both are the same kind of statement
        if idx + 1 < len(cl):
            j, l2 = cl[idx + 1]
            if j == i + 1 and 'extend_from_slice' in l and 'extend_from_slice' in l2 and l != l2:
                res.append((path, i, 'swap-adjacent', lines[i] + '\n' + lines[j], lines[j] + '\n' + lines[i]))
            if j == i + 1 and re.match(r'^\s*pub \w+: ', l) and re.match(r'^\s*pub \w+: ', l2) and l.split(':')[1] == l2.split(':')[1] and l != l2 and 'static_versions' in path:
                res.append((path, i, 'swap-adjacent-fields', lines[i] + '\n' + lines[j], lines[j] + '\n' + lines[i]))
    return res


def all_mutants():
    ms = []
    for f in FILES:
        ms += mutants_for(f)
    # stable id
    out = []
    seen = set()
    for (path, i, op, old, new) in ms:
        key = hashlib.sha1(f'{path}:{i}:{op}:{new}'.encode()).hexdigest()[:10]
        if key in seen:
            continue
        seen.add(key)
        out.append({'id': key, 'file': path, 'line': i + 1, 'op': op, 'before': old.strip(), 'after': new.strip(), '_old': old, '_new': new})
    return out


def sh(cmd, cwd=None, env=None, timeout=None):
    try:
        p = subprocess.run(cmd, shell=True, cwd=cwd, env=env, stdout=subprocess.PIPE, stderr=subprocess.STDOUT, timeout=timeout, text=True, errors='replace')
        return p.returncode, p.stdout
    except subprocess.TimeoutExpired as e:
        return 124, (e.stdout or '') if isinstance(e.stdout, str) else ''


def run(worker, nworkers):
    ms = all_mutants()
    done = set()
    try:
        for l in open('/verif/mutants/SWEEP.jsonl'):
            done.add(json.loads(l)['id'])
    except Exception:
        pass
    W = f'/tmp/sweep-w{worker}'
    sh(f'git -C {REPO} worktree remove --force {W}; rm -rf {W}')
    rc, out = sh(f'git -C {REPO} worktree add --detach {W} HEAD')
    if rc != 0:
        print(out)
        sys.exit(2)
    env = dict(os.environ, CARGO_NET_OFFLINE='true', CARGO_TARGET_DIR=f'/tmp/sweep-t{worker}-tests')
    cenv = dict(os.environ, CARGO_NET_OFFLINE='true', NFV_REPO=W, NFV_TARGET=f'/tmp/sweep-t{worker}', NFV_WATCHDOG_S='400', NFV_THREADS='8', NFV_SCALE=os.environ.get('SWEEP_SCALE', '0.35'))
    for k, m in enumerate(ms):
        if k % nworkers != worker or m['id'] in done:
            continue
        sh('git checkout -q -- . && git clean -fdq src', cwd=W)
        p = os.path.join(W, m['file'])
        text = open(p).read()
        if text.count(m['_old']) < 1:
            continue
        # replace the occurrence on that line
        lines = text.split('\n')
        old_lines = m['_old'].split('\n')
        i = m['line'] - 1
        if lines[i:i + len(old_lines)] != old_lines:
            continue
        lines[i:i + len(old_lines)] = m['_new'].split('\n')
        open(p, 'w').write('\n'.join(lines))
        rec = {k2: v for k2, v in m.items() if not k2.startswith('_')}
        t0 = time.time()
        rc, out = sh('cargo test --offline 2>&1 | tail -40', cwd=W, env=env, timeout=420)
        if 'error[' in out or 'error: could not compile' in out or 'error: aborting' in out:
            rec['verdict'] = 'does-not-compile'
        elif rc == 124:
            rec['verdict'] = 'repo-tests-timeout'
        elif 'test result: FAILED' in out or 'failed' in out.lower() and 'test result: ok' not in out:
            rec['verdict'] = 'killed-by-repo-tests'
        elif 'test result: ok' in out:
            rec['verdict'] = 'SURVIVED'
            rec['checks'] = []
            for cid in FILES[m['file']].split():
                t1 = time.time()
                rc, out = sh(f'ulimit -v 30000000; cd /verif && timeout 900 ./verif.sh check {cid} quick 2>&1 | tail -30', env=cenv, timeout=1000)
                viol = 'VIOLATION property=' in out
                detail = ''
                for ln in out.split('\n'):
                    if ln.startswith('violation detail') or ln.startswith('INCONCLUSIVE'):
                        detail = ln[:220]
                code = 1 if viol else (2 if 'INCONCLUSIVE' in out or rc == 124 else (0 if 'OK property=' in out else 3))
                rec['checks'].append({'check': cid, 'exit': code, 's': int(time.time() - t1), 'detail': detail})
                if code == 1:
                    rec['verdict'] = f'killed-by-{cid}'
                    break
        else:
            rec['verdict'] = 'unknown'
            rec['tail'] = out[-300:]
        rec['seconds'] = int(time.time() - t0)
        with open('/verif/mutants/SWEEP.jsonl', 'a') as f:
            f.write(json.dumps(rec) + '\n')
        print(rec['id'], rec['file'], rec['line'], rec['op'], rec['verdict'], flush=True)
    sh(f'git -C {REPO} worktree remove --force {W}; rm -rf {W} /tmp/sweep-t{worker} /tmp/sweep-t{worker}-tests')


if __name__ == '__main__':
    if sys.argv[1] == 'list':
        ms = all_mutants()
        for m in ms:
            print(m['id'], m['file'], m['line'], m['op'], '|', m['before'][:70], '->', m['after'][:70])
        print(len(ms), 'mutants', file=sys.stderr)
    elif sys.argv[1] == 'run':
        run(int(sys.argv[2]), int(sys.argv[3]))
