#!/bin/bash
# rerun_seeds.sh [label...]  - regression of the checks' sensitivity: apply every kept seeded change
# (seeded/<label>/patch.diff) to a scratch worktree and run the quick check of its property.
# Prints one line per seed; exit 0 only if every seed is still caught. Nothing is written to /repo.
set -u
cd /verif
LABELS=("$@"); [ ${#LABELS[@]} -eq 0 ] && LABELS=($(cd seeded && ls -d */ | tr -d /))
MISSED=0
for L in "${LABELS[@]}"; do
  # the check that catches the seed: its own property's, unless seeded/<label>/check names another
  ID=$(cat "seeded/$L/check" 2>/dev/null || echo "${L%%-*}")
  if [ "$ID" = none ]; then echo "$L not addressed (accepted limit, see seeded/$L/meta.json)"; continue; fi
  R=$(tools/try_patch.sh "seeded/$L/patch.diff" "$ID" 2>&1 | tail -1 | cut -c1-260)
  echo "$L $R"
  case "$R" in *"exit=1"*) ;; *) MISSED=$((MISSED+1));; esac
done
echo "missed=$MISSED"
[ $MISSED -eq 0 ]
