#!/bin/bash
# Driver for the netflow_parser property checks.
#   verif.sh setup                 cold build of everything (offline)
#   verif.sh check <ID> <tier>     rebuild from /repo's working tree, run one check
#   verif.sh replay <ID> <file>    re-run the oracle of <ID> on a saved case
# Exit codes of `check`: 0 held, 1 violation (VIOLATION line printed), 2 inconclusive /
# infrastructure problem (build failure of the harness, watchdog, missing tool).
#
# NFV_REPO=<dir>   check a copy of the repository instead of /repo (sensitivity runs);
# NFV_TARGET=<dir> build output directory (default /verif/target).
set -u
export CARGO_NET_OFFLINE=true
ORIG_PWD="$PWD"
cd /verif/harness || exit 2
TARGET="${NFV_TARGET:-/verif/target}"
export NFV_TARGET="$TARGET"
CFG=()
if [ -n "${NFV_REPO:-}" ]; then
  CFG=(--config "paths=[\"$NFV_REPO\"]")
  # sensitivity run against a scratch copy: keep its evidence / replays out of /verif
  export NFV_OUT_DIR="$TARGET/out"
fi
LOG="$TARGET/build.log"
mkdir -p "$TARGET"

build_release() {
  cargo build "${CFG[@]}" --target-dir "$TARGET" --release --bins >"$LOG.$$" 2>&1 || {
    echo "INCONCLUSIVE: harness build (release) failed"; tail -40 "$LOG.$$"; rm -f "$LOG.$$"; return 2; }
  rm -f "$LOG.$$"
}
build_o0() {
  cargo build "${CFG[@]}" --target-dir "$TARGET" --profile o0 --bin worker >"$LOG.$$" 2>&1 || {
    echo "INCONCLUSIVE: harness build (o0 worker) failed"; tail -40 "$LOG.$$"; rm -f "$LOG.$$"; return 2; }
  rm -f "$LOG.$$"
}

# feature-off arm for C17: a build failure here is a *finding* (the check reports it)
build_nopuf() {
  if cargo build "${CFG[@]}" --target-dir "$TARGET/nopuf" --release --no-default-features --bin c17arm >"$TARGET/nopuf-build.log" 2>&1; then
    export NFV_NOPUF_BUILD=ok
  else
    export NFV_NOPUF_BUILD="fail:$TARGET/nopuf-build.log"
  fi
}

case "${1:-}" in
  setup)
    build_release || exit 2
    build_o0 || exit 2
    build_nopuf
    echo "setup ok"
    ;;
  check)
    ID="$2"; TIER="${3:-${VERIF_TIER:-quick}}"
    build_release || exit 2
    if [ "$ID" = "C01" ]; then build_o0 || exit 2; fi
    if [ "$ID" = "C17" ]; then build_nopuf; fi
    "$TARGET/release/check" "$ID" --tier "$TIER"
    CODE=$?
    # thorough tier: coverage-guided campaign with the property's oracle in the target
    if [ $CODE -eq 0 ] && [ "$TIER" = thorough ] && [ -z "${NFV_REPO:-}" ]; then
      case "$ID" in
        C02|C03|C08|C15)
          /verif/tools/fuzz_phase.sh "$ID" "${NFV_FUZZ_RUNS:-3000000}" 16 fuzz_history
          CODE=$?
          ;;
        C01)
          # (every execution runs on a fresh 2 MiB thread: about 500 executions/s per worker)
          /verif/tools/fuzz_phase.sh "$ID" "${NFV_FUZZ_RUNS:-1000000}" 16 fuzz_history
          CODE=$?
          ;;
        C12)
          # (every execution runs 32+ allowed-set configurations: about 100 executions/s per worker)
          /verif/tools/fuzz_phase.sh "$ID" "${NFV_FUZZ_RUNS:-100000}" 16 fuzz_history
          CODE=$?
          ;;
        C09|C10)
          # (the attribution oracle runs at 1-3 thousand executions/s per worker)
          /verif/tools/fuzz_phase.sh "$ID" "${NFV_FUZZ_RUNS:-1000000}" 16 fuzz_history
          CODE=$?
          if [ $CODE -eq 0 ]; then
            /verif/tools/fuzz_phase.sh "$ID" "${NFV_FUZZ_PLAN_RUNS:-500000}" 16 fuzz_plan
            CODE=$?
          fi
          ;;
        C16)
          /verif/tools/fuzz_phase.sh "$ID" "${NFV_FUZZ_RUNS:-1000000}" 16 fuzz_history
          CODE=$?
          if [ $CODE -eq 0 ]; then
            /verif/tools/fuzz_phase.sh "$ID" "${NFV_FUZZ_PLAN_RUNS:-200000}" 16 fuzz_plan
            CODE=$?
          fi
          ;;
        C04|C05|C07|C13)
          /verif/tools/fuzz_phase.sh "$ID" "${NFV_FUZZ_PLAN_RUNS:-1000000}" 16 fuzz_plan
          CODE=$?
          ;;
        C06|C11|C14)
          # these oracles re-execute every case many times (partitions, cut points):
          # 150-400 executions/s per worker
          /verif/tools/fuzz_phase.sh "$ID" "${NFV_FUZZ_PLAN_RUNS:-200000}" 16 fuzz_plan
          CODE=$?
          ;;
      esac
    fi
    exit $CODE
    ;;
  replay)
    ID="$2"; FILE="$3"
    case "$FILE" in /*) ;; *) FILE="$ORIG_PWD/$FILE";; esac
    build_release || exit 2
    if [ "$ID" = "C01" ]; then build_o0 || exit 2; fi
    "$TARGET/release/check" "$ID" --replay "$FILE"
    exit $?
    ;;
  *)
    echo "usage: verif.sh setup | check <ID> [quick|thorough] | replay <ID> <file>"; exit 2;;
esac
